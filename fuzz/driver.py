#!/venv/bin/python
"""atheris/libFuzzer driver: coverage-guided search through one clause's oracle.

usage: driver.py <check> <clause> <decoder> [libFuzzer args...]
Bytes are decoded into the clause's structured *case*; the semantic oracle of the clause
runs inside the target; a failure that is not a known finding raises, so libFuzzer saves
the input as crash-*.  The parent (harness.fuzzing) converts it into a replay JSON.
"""
import os
import sys

ROOT = os.path.dirname(os.path.dirname(os.path.abspath(__file__)))
sys.path.insert(0, ROOT)
sys.path.insert(1, os.path.join(ROOT, ".deps"))


def main():
    check, cname, decname = sys.argv[1:4]
    argv = [sys.argv[0]] + sys.argv[4:]
    import atheris

    from harness import env

    env.ensure_deps()
    sys.path.insert(0, env.REPO)
    with atheris.instrument_imports(include=["coxeter"]):
        import coxeter  # noqa: F401
    from fuzz import decoders
    from harness import runner

    _, clauses = runner.load_clauses(check)
    clause = clauses[cname]
    decode = getattr(decoders, decname)
    findings = [f for f in runner.load_findings() if f.prop == check]

    def known(f):
        return any(k.matches(check, cname, f["obs"], f["sig"]) for k in findings)

    def one(data):
        case = decode(data)
        if case is None:
            return
        rec = runner.run_case(clause, case)
        new = [f for f in rec.fails if not known(f)]
        if new:
            raise RuntimeError("ORACLE " + runner.bucket_key(cname, new[0]))

    atheris.Setup(argv, one)
    atheris.Fuzz()


if __name__ == "__main__":
    main()
