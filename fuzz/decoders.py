"""Byte -> structured case decoders for the fuzz targets (pure functions)."""


def lattice_polygon(data):
    """C15 clause 'polygon', mode 'lattice': up to 10 vertices on an 8x8 integer grid."""
    if len(data) < 4:
        return None
    n = 3 + data[0] % 8
    pts = []
    for i in range(n):
        b = data[1 + (i % (len(data) - 1))] if len(data) > 1 else 0
        pts.append((b % 8, (b // 8) % 8))
    return {"mode": "lattice", "lat": pts, "intarray": bool(data[-1] & 1), "poly": {"kind": "lattice", "hs": [1], "ws": [1], "sub": "stairs"},
            "emb": {"cw": False, "shift": 0, "normal": "none", "inplane": 0.0, "reflex_first": False, "place": None, "offset2": [0.0, 0.0]},
            "i": 0, "j": 0, "container": "list", "logs": 0.0}


def scaled_extrusion(data):
    """C09 clause 'lattice_extrusion': integer polygon + scale exponent + tilt selector."""
    if len(data) < 5:
        return None
    n = 3 + data[0] % 7
    pts = []
    for i in range(n):
        b = data[2 + (i % (len(data) - 2))]
        pts.append([b % 8, (b // 8) % 8])
    return {"pts": pts, "logs": (data[1] % 61) / 10.0 - 3.0, "tilt": data[-1] % 4}


def gsd_dict(data):
    """C19 clause 'gsd_fuzz': a GSD-like dict with drawn type string and key subset."""
    if len(data) < 3:
        return None
    return {"type_index": data[0] % 13, "keys": data[1], "dims": 2 + data[2] % 2, "vals": list(data[3:19])}
