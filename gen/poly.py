"""Simple planar polygons (G-POLY) and their embedding into 3-space."""
import math

import numpy as np
from hypothesis import strategies as st

from gen.zoo import f, noise, unit
from oracle import geom


@st.composite
def simple_polygon(draw, max_n=24, kinds=("star", "comb", "spiral", "lattice", "lattice_free", "convex", "untangled")):
    kind = draw(st.sampled_from(kinds))
    if kind == "lattice_free":
        n = draw(st.integers(4, min(9, max_n)))
        pts = draw(st.lists(st.tuples(st.integers(0, 6), st.integers(0, 6)), min_size=n, max_size=n, unique=True))
        return {"kind": kind, "pts": [list(p) for p in pts]}
    if kind == "star":
        n = draw(st.integers(3, max_n))
        return {"kind": kind, "n": n, "noise": draw(noise(2 * n))}
    if kind == "comb":
        t = draw(st.integers(1, max(1, (max_n - 2) // 4)))
        return {"kind": kind, "teeth": t, "noise": draw(noise(3 * t + 2)), "shear": draw(f(-0.5, 0.5))}
    if kind == "spiral":
        t = draw(st.integers(2, max(2, max_n // 4)))
        return {"kind": kind, "turns": t, "noise": draw(noise(4))}
    if kind == "lattice":
        k = draw(st.integers(1, 5))
        hs = draw(st.lists(st.integers(1, 4), min_size=k, max_size=k))
        ws = draw(st.lists(st.integers(1, 3), min_size=k, max_size=k))
        return {"kind": kind, "hs": hs, "ws": ws, "sub": draw(st.sampled_from(["stairs", "skyline"]))}
    if kind == "convex":
        n = draw(st.integers(3, max_n))
        return {"kind": kind, "n": n, "regular": draw(st.booleans()), "noise": draw(noise(n + 1))}
    n = draw(st.integers(4, min(12, max_n)))
    return {"kind": "untangled", "n": n, "noise": draw(noise(2 * n))}


_FALLBACK = np.array([(0, 0), (3, 0.1), (3.2, 2), (1.5, 0.8), (0.1, 2.2)], dtype=float)
FALLBACKS = [0]


def build_polygon_xy(case):
    """-> (n,2) float array: simple polygon listed counter-clockwise, no collinear triples
    (|sin(turn)| >= 5e-3), non-adjacent edges at least 2e-3 sizes apart, vertices
    distinct.  Anything a raw construction gets wrong is replaced by a fixed valid
    non-convex polygon (counted in FALLBACKS) - construction, not rejection."""
    P = _build_polygon_xy_raw(case)
    ok = len(P) >= 3
    if ok:
        s, d, simple = polygon_margins(P)
        A = geom.polygon_xy_moments(P)[0]
        size = float(np.max(np.linalg.norm(P - P.mean(axis=0), axis=1))) * 2
        ok = simple and s >= 5e-3 and d >= 2e-3 and A > 1e-4 * size * size
    if not ok:
        FALLBACKS[0] += 1
        return _FALLBACK.copy()
    return P


def _build_polygon_xy_raw(case):
    k = case["kind"]
    if k == "star":
        n = case["n"]
        u = unit(case["noise"])
        th = 2 * np.pi * (np.arange(n) + 0.15 + 0.7 * u[:n]) / n  # every gap < pi for n >= 3
        r = 0.4 + 1.6 * u[n:]
        P = np.stack([r * np.cos(th), r * np.sin(th)], axis=1)
        return _fix_collinear(P)
    if k == "comb":
        t = case["teeth"]
        u = unit(case["noise"])
        pts = [(0.0, 0.0)]
        x = 0.0
        top = []
        for i in range(t):
            w = 0.4 + 0.6 * u[3 * i]
            g = 0.3 + 0.5 * u[3 * i + 1]
            h = 0.8 + 1.5 * u[3 * i + 2]
            # tooth from x to x+w rising to h, gap g at height 0.4
            top += [(x, h + 0.07 * i), (x + w, h + 0.05 + 0.07 * i)]
            if i < t - 1:
                top += [(x + w + 0.03, 0.4 + 0.01 * i), (x + w + g, 0.41 + 0.013 * i)]
            x += w + g + 0.05
        xmax = top[-1][0]
        pts = [(0.0, -0.1), (xmax + 0.02, 0.0)] + top[::-1]
        P = np.array(pts, dtype=float)
        P[:, 0] += case["shear"] * P[:, 1]
        return _ensure_ccw(P)
    if k == "spiral":
        t = case["turns"]
        u = unit(case["noise"])
        m = 4 * t
        outer = [((1 + 0.35 * i) * math.cos(i * math.pi / 2 + 0.1 * u[0]), (1 + 0.35 * i) * math.sin(i * math.pi / 2 + 0.13))
                 for i in range(m)]
        inner = [((0.8 + 0.35 * i) * math.cos(i * math.pi / 2 + 0.12), (0.8 + 0.35 * i) * math.sin(i * math.pi / 2 + 0.1 * u[1] + 0.02))
                 for i in range(m)]
        P = np.array(outer + inner[::-1], dtype=float)
        if not geom.is_simple_polygon_2d(P.tolist()):
            P = np.array(outer[:4] + inner[:4][::-1], dtype=float)
        if not geom.is_simple_polygon_2d(P.tolist()):
            P = np.array([(0, 0), (3, 0.1), (3.2, 2), (1.5, 0.8), (0.1, 2.2)], dtype=float)
        return _ensure_ccw(P)
    if k == "lattice":
        return np.array(build_lattice_polygon(case), dtype=float)
    if k == "lattice_free":
        # integer points untangled by 2-opt: many vertices share x or y, edges in general direction
        P = _untangle(np.array(case["pts"], dtype=float))
        P = np.array(_dedupe_collinear_int([tuple(int(v) for v in q) for q in P]), dtype=float)
        return _ensure_ccw(P) if len(P) >= 3 else P
    if k == "convex":
        from gen.zoo import convex_polygon_xy

        return convex_polygon_xy(case["n"], case["regular"], case["noise"])
    n = case["n"]
    u = unit(case["noise"])
    P = np.stack([u[:n], u[n:]], axis=1) * 4
    # keep points distinct and in general position even for all-zero noise
    ang = 2.399963 * np.arange(n)
    P += 0.3 * np.sqrt(1 + np.arange(n))[:, None] * np.stack([np.cos(ang), np.sin(ang)], axis=1)
    P = _untangle(P)
    return _fix_collinear(_ensure_ccw(P))


def build_lattice_polygon(case):
    """Integer rectilinear polygon (ccw): staircase or skyline."""
    hs, ws = case["hs"], case["ws"]
    pts = [(0, 0)]
    x = 0
    if case["sub"] == "stairs":
        tot = sum(ws)
        pts = [(0, 0), (tot, 0)]
        y = 0
        x = tot
        for h, w in zip(hs, ws):
            y += h
            pts.append((x, y))
            x -= w
            pts.append((x, y))
        # last point is (0, ytop); remove duplicate collinear start if any
        return _dedupe_collinear_int(pts)
    # skyline: columns of different heights
    pts = [(0, 0), (sum(ws), 0)]
    x = sum(ws)
    prev = None
    for h, w in list(zip(hs, ws))[::-1]:
        hh = h if h != prev else h + 1
        pts.append((x, hh))
        x -= w
        pts.append((x, hh))
        prev = hh
    return _dedupe_collinear_int(pts)


def _dedupe_collinear_int(pts):
    out = []
    n = len(pts)
    for i in range(n):
        a, b, c = pts[i - 1], pts[i], pts[(i + 1) % n]
        cr = (b[0] - a[0]) * (c[1] - b[1]) - (b[1] - a[1]) * (c[0] - b[0])
        if cr != 0 and b != a:
            out.append(b)
    return out


def _ensure_ccw(P):
    x, y = P[:, 0], P[:, 1]
    A = np.sum(x * np.roll(y, -1) - np.roll(x, -1) * y)
    return P if A > 0 else P[::-1].copy()


def _fix_collinear(P, tol=1e-2):
    """Nudge vertices whose turning angle is almost straight (keeps simplicity for small nudges)."""
    P = P.copy()
    n = len(P)
    for _ in range(3):
        a = P - np.roll(P, 1, axis=0)
        b = np.roll(P, -1, axis=0) - P
        s = (a[:, 0] * b[:, 1] - a[:, 1] * b[:, 0]) / (np.linalg.norm(a, axis=1) * np.linalg.norm(b, axis=1))
        bad = np.abs(s) < tol
        if not bad.any():
            break
        for i in np.nonzero(bad)[0]:
            nrm = np.array([-a[i, 1], a[i, 0]])
            nrm /= np.linalg.norm(nrm)
            P[i] += 0.03 * np.linalg.norm(a[i]) * nrm
    return P


def _untangle(P):
    """2-opt uncrossing until the closed polygon is simple."""
    P = P.copy()
    n = len(P)

    def crosses(a, b, c, d):
        def o(p, q, r):
            return (q[0] - p[0]) * (r[1] - p[1]) - (q[1] - p[1]) * (r[0] - p[0])
        return (o(a, b, c) > 0) != (o(a, b, d) > 0) and (o(c, d, a) > 0) != (o(c, d, b) > 0)

    for _ in range(200):
        changed = False
        for i in range(n):
            for j in range(i + 2, n):
                if i == 0 and j == n - 1:
                    continue
                if crosses(P[i], P[(i + 1) % n], P[j], P[(j + 1) % n]):
                    P[i + 1:j + 1] = P[i + 1:j + 1][::-1]
                    changed = True
        if not changed:
            break
    return P


def polygon_margins(P):
    """(min |sin turn|, min distance between non-adjacent edges / size, simple?)"""
    n = len(P)
    a = P - np.roll(P, 1, axis=0)
    b = np.roll(P, -1, axis=0) - P
    s = np.abs(a[:, 0] * b[:, 1] - a[:, 1] * b[:, 0]) / (np.linalg.norm(a, axis=1) * np.linalg.norm(b, axis=1))
    size = float(np.max(np.linalg.norm(P - P.mean(axis=0), axis=1))) * 2
    dmin = np.inf
    Q = np.roll(P, -1, axis=0)
    for i in range(n):
        for j in range(i + 2, n):
            if i == 0 and j == n - 1:
                continue
            d = min(geom.segment_distance_2d(P[i:i + 1], P[j:j + 1], Q[j:j + 1])[0, 0],
                    geom.segment_distance_2d(Q[i:i + 1], P[j:j + 1], Q[j:j + 1])[0, 0],
                    geom.segment_distance_2d(P[j:j + 1], P[i:i + 1], Q[i:i + 1])[0, 0],
                    geom.segment_distance_2d(Q[j:j + 1], P[i:i + 1], Q[i:i + 1])[0, 0])
            dmin = min(dmin, d)
    return float(s.min()), float(dmin / size) if n > 3 else 1.0, geom.is_simple_polygon_2d(P.tolist())


def ear_clip(P):
    """Triangulate a simple ccw polygon; returns index triples (ccw). Exact orientation
    tests on floats (robust enough for polygons with the margins above)."""
    n = len(P)
    idx = list(range(n))
    tris = []

    def orient(a, b, c):
        return (P[b, 0] - P[a, 0]) * (P[c, 1] - P[a, 1]) - (P[b, 1] - P[a, 1]) * (P[c, 0] - P[a, 0])

    guard = 0
    while len(idx) > 3 and guard < 10 * n * n:
        guard += 1
        m = len(idx)
        best = None
        for t in range(m):
            a, b, c = idx[t - 1], idx[t], idx[(t + 1) % m]
            if orient(a, b, c) <= 0:
                continue
            ok = True
            for p in idx:
                if p in (a, b, c):
                    continue
                if orient(a, b, p) >= 0 and orient(b, c, p) >= 0 and orient(c, a, p) >= 0:
                    ok = False
                    break
            if ok:
                ar = orient(a, b, c)
                if best is None or ar > best[0]:
                    best = (ar, t)
        if best is None:
            raise ValueError("ear clipping failed")
        t = best[1]
        tris.append((idx[t - 1], idx[t], idx[(t + 1) % m]))
        del idx[t]
    tris.append(tuple(idx))
    return tris


# ---------------------------------------------------------------------------- embedding
@st.composite
def embedding(draw, planar_only=False):
    """How a ccw xy-polygon is handed to the code: orientation, cyclic shift, normal
    argument, in-plane rotation, spatial placement."""
    from gen.zoo import placement

    e = {"cw": draw(st.booleans()), "shift": draw(st.integers(0, 40)),
         "normal": draw(st.sampled_from(["none", "plus", "minus", "scaled_list", "ndarray"])),
         "inplane": draw(f(0, 2 * math.pi)) if draw(st.booleans()) else 0.0,
         "reflex_first": draw(st.booleans())}
    if planar_only:
        e["place"] = None
        e["offset2"] = [draw(f(-5, 5)), draw(f(-5, 5))] if draw(st.booleans()) else [0.0, 0.0]
    else:
        e["place"] = draw(placement(max_offset=8.0)) if draw(st.integers(0, 3)) > 0 else None
        e["offset2"] = [0.0, 0.0]
        if e["place"] is not None and draw(st.integers(0, 9)) == 0:
            # a plane tilted out of the xy-plane by a hair (1e-9 .. 1e-2 rad): "is the normal +z?" shortcuts must not fire
            eps = 10.0 ** draw(f(-9, -2))
            ax = draw(st.sampled_from([[1.0, 0.0], [0.0, 1.0], [0.6, -0.8]]))
            e["place"]["quat"] = [1.0, 0.5 * eps * ax[0], 0.5 * eps * ax[1], 0.0]
            e["tiny_tilt"] = eps
    return e


def embed(xy, e):
    """-> dict(verts3 (n,3) in the order handed to the code, normal_arg, true_normal
    (unit, the direction about which xy is ccw *before* any cw flip), cw_about_plus)."""
    P = np.asarray(xy, dtype=float)
    n = len(P)
    c, s = math.cos(e["inplane"]), math.sin(e["inplane"])
    M2 = np.array([[c, s], [-s, c]])
    off2 = np.asarray(e["offset2"], dtype=float)
    P = P @ M2 + off2
    # cyclic shift; optionally steer a reflex corner into first position
    a = P - np.roll(P, 1, axis=0)
    b = np.roll(P, -1, axis=0) - P
    turn = a[:, 0] * b[:, 1] - a[:, 1] * b[:, 0]
    reflex = np.nonzero(turn < 0)[0]
    shift = e["shift"] % n
    if e["reflex_first"] and len(reflex):
        # the default normal is computed from vertices 0,1,2 -> corner at index 1
        shift = (int(reflex[e["shift"] % len(reflex)]) - 1) % n
    P = np.roll(P, -shift, axis=0)
    if e["cw"]:
        P = P[::-1].copy()
    V = np.c_[P, np.zeros(n)]
    nplus = np.array([0.0, 0.0, 1.0])
    R, t, sc = np.eye(3), np.zeros(3), 1.0
    if e["place"] is not None:
        from gen.zoo import apply_placement

        V, R, t, sc = apply_placement(e["place"], V)
        nplus = R @ nplus

    def to3d(pts2):
        q = np.asarray(pts2, dtype=float) @ M2 + off2
        return sc * (np.c_[q, np.zeros(len(q))] @ R.T) + t
    kind = e["normal"]
    if kind == "none":
        arg = None
    elif kind == "plus":
        arg = tuple(float(x) for x in nplus)
    elif kind == "minus":
        arg = tuple(float(-x) for x in nplus)
    elif kind == "scaled_list":
        arg = [float(2.5 * x) for x in nplus]
    else:
        arg = np.array(nplus, dtype=float) * 1.0
    return {"verts": V, "normal_arg": arg, "nplus": nplus, "cw": bool(e["cw"]), "to3d": to3d, "scale": sc, "first_corner_reflex":
            bool((turn[(shift + 1) % n] < 0) if not e["cw"] else (turn[(shift - 1 - 1) % n] < 0))}
