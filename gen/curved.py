"""G-CURVED: radii / semi-axes and centres for Circle, Ellipse, Sphere, Ellipsoid."""
import numpy as np
from hypothesis import strategies as st

from gen.zoo import f


@st.composite
def axes(draw, k, decades=3.0):
    """k positive semi-axes, any order, with forced ties and near-ties."""
    base = [draw(f(-decades, decades)) for _ in range(k)]
    mode = draw(st.sampled_from(["free", "free", "tie_all", "tie_two", "near_tie", "needle", "disc", "integers"]))
    ax = [10.0 ** b for b in base]
    # the numeric type the parameters are handed over in (see typed()); the case itself keeps plain Python numbers
    ptype = draw(st.sampled_from(["py", "py", "py", "np.float64", "np.float32", "np.int64", "np.int32"]))
    if mode == "integers":
        # integer-typed parameters (Ellipsoid(1, 2, 3)): arithmetic on them must not stay in integers
        hi = draw(st.sampled_from([9, 9, 1000]))  # up to 1e3 (the stated range): products of fixed-width integers must not wrap
        return {"axes": [draw(st.integers(1, hi)) for _ in range(k)], "mode": mode, "ptype": ptype}
    if mode == "tie_all":
        ax = [ax[0]] * k
    elif mode == "tie_two" and k >= 2:
        i = draw(st.integers(0, k - 1))
        j = (i + 1 + draw(st.integers(0, k - 2))) % k
        ax[j] = ax[i]
    elif mode == "near_tie" and k >= 2:
        gap = 10.0 ** draw(f(-15, -3))
        i = draw(st.integers(0, k - 1))
        j = (i + 1 + draw(st.integers(0, k - 2))) % k
        ax[j] = ax[i] * (1 + gap)
        if draw(st.booleans()) and k == 3:
            ax[3 - i - j] = ax[i] * (1 - gap)
    elif mode == "needle" and k >= 2:
        i = draw(st.integers(0, k - 1))
        ax = [a * (1e3 if t == i else 1.0) for t, a in enumerate(ax)]
        ax = [min(a, 1e6) for a in ax]
    elif mode == "disc" and k >= 2:
        i = draw(st.integers(0, k - 1))
        ax = [max(a * (1e-3 if t == i else 1.0), 1e-6) for t, a in enumerate(ax)]
    return {"axes": [float(a) for a in ax], "mode": mode, "ptype": ptype if ptype == "np.float64" else "py"}


def typed(axd):
    """The parameters of an axes() case as the numeric type recorded in it: Python numbers, numpy float64 scalars, or - only
    for the integer-valued mode, where the value is represented exactly - numpy int64/int32/float32 scalars."""
    t = axd.get("ptype", "py")
    if t == "py":
        return list(axd["axes"])
    conv = {"np.float64": np.float64, "np.float32": np.float32, "np.int64": np.int64, "np.int32": np.int32}[t]
    return [conv(a) for a in axd["axes"]]


@st.composite
def centre(draw, dim3=True):
    """Centre with pairwise distinct components (relative units of the largest axis) and the
    container type it is passed in."""
    kind = draw(st.sampled_from(["origin", "generic", "generic", "far"]))
    if kind == "origin":
        c = [0.0, 0.0, 0.0]
    else:
        m = 3.0 if kind == "generic" else 20.0
        c = [draw(f(-m, m)) for _ in range(3)]
        # distinct components (so that swapped coordinates are visible)
        if abs(c[0] - c[1]) < 1e-3:
            c[1] = c[0] + 0.37
        if abs(c[0] - c[2]) < 1e-3 or abs(c[1] - c[2]) < 1e-3:
            c[2] = c[0] - 0.53 if abs(c[0] - 0.53 - c[1]) > 1e-3 else c[0] - 0.91
    if not dim3:
        c[2] = 0.0
    containers = ["tuple", "list", "ndarray", "ndarray", "int_tuple", "int_ndarray"] + (["omitted", "omitted"] if kind == "origin" else [])
    return {"rel": c, "container": draw(st.sampled_from(containers)), "kind": kind}


class Omitted(tuple):
    """The centre argument left out (the constructors default to the origin): behaves like (0, 0, 0) for the oracles and
    is dropped from the argument list by checks.common.call."""


def make_centre(cdict, scale):
    c = [x * scale for x in cdict["rel"]]
    if cdict["container"] == "omitted":
        return Omitted((0.0, 0.0, 0.0))
    if cdict["container"] in ("int_tuple", "int_ndarray"):
        # integer-typed centre (Circle(1, (2, -3, 0)), np.array([2, -3, 0])): the components rounded to integers (at least
        # as far apart as before in units of the scale when the scale is >= 1; otherwise mostly zeros, still legitimate)
        ci = [int(round(x)) for x in c]
        return tuple(ci) if cdict["container"] == "int_tuple" else np.array(ci, dtype=np.int64)
    if cdict["container"] == "tuple":
        return tuple(c)
    if cdict["container"] == "list":
        return list(c)
    return np.array(c, dtype=float)
