"""Shared generators ("shape zoo"): Hypothesis strategies that draw JSON-able *cases*
and deterministic builders that turn a case into concrete numpy input.

Design rules: construct, don't reject; every random choice is a Hypothesis draw (bulk
noise comes from ``st.binary`` so it shrinks towards zero noise); validity margins are
enforced by construction.
"""
import glob
import json
import math
import os

import numpy as np
from hypothesis import strategies as st

from harness import env
from oracle import geom

GOLD = math.pi * (3 - math.sqrt(5))


# ----------------------------------------------------------------------------- helpers
@st.composite
def noise(draw, n):
    """n numbers in [0,1) carried by one binary draw (fast, shrinks to zeros)."""
    b = draw(st.binary(min_size=2 * n, max_size=2 * n))
    return [int(x) for x in np.frombuffer(b, dtype="<u2")]


def unit(nz):
    return np.asarray(nz, dtype=float) / 65536.0


def f(lo, hi):
    # no subnormals: a coordinate difference of 5e-324 underflows to zero in any product (cross products, determinants),
    # so geometry at that resolution is outside what floating-point code can be asked to decide
    return st.floats(lo, hi, allow_nan=False, allow_infinity=False, allow_subnormal=False, width=64)


@st.composite
def placement(draw, max_offset=10.0, scale_decades=0.0, p_identity=0.25):
    """Rigid placement (+ optional uniform scale): dict(quat, tdir, tmag, logs)."""
    ident = draw(st.integers(0, 99)) < p_identity * 100
    if ident:
        quat = [1.0, 0.0, 0.0, 0.0]
    else:
        quat = [draw(f(-1, 1)) for _ in range(4)]
        if sum(q * q for q in quat) < 1e-3:
            quat = [1.0, 0.0, 0.0, 0.0]
    tkind = draw(st.integers(0, 2))
    tmag = 0.0 if tkind == 0 else draw(f(0, max_offset))
    tdir = [draw(f(-1, 1)) for _ in range(3)]
    if sum(t * t for t in tdir) < 1e-3:
        tdir = [1.0, 0.0, 0.0]
    logs = 0.0
    if scale_decades > 0 and draw(st.integers(0, 2)) > 0:
        # Hypothesis floats cluster around "nice" values; a half-decade grid plus a free offset spreads the scale evenly
        steps = int(2 * scale_decades)
        logs = draw(st.sampled_from([k / 2.0 for k in range(-steps, steps + 1)]))
        if draw(st.booleans()):
            logs = max(-scale_decades, min(scale_decades, logs + draw(f(-0.25, 0.25))))
    return {"quat": quat, "tdir": tdir, "tmag": tmag, "logs": logs}


def apply_placement(pl, verts):
    """Return (new_verts, R, t, s) with new = s * (R v) + t, t = tmag * diameter * dir."""
    V = np.asarray(verts, dtype=float)
    R = geom.rotation_from_quaternion(np.asarray(pl["quat"], dtype=float))
    s = 10.0 ** pl["logs"]
    c = V.mean(axis=0)
    diam = 2 * float(np.max(np.linalg.norm(V - c, axis=1))) or 1.0
    d = np.asarray(pl["tdir"], dtype=float)
    d = d / np.linalg.norm(d)
    t = pl["tmag"] * diam * s * d
    return s * (V @ R.T) + t, R, t, s


ANCHORS = ["centroid", "centroid", "vertex_mean", "vertex", "bbox"]


def anchored(mode, V, faces=None, k=0):
    """Translate V so that a distinguished point of the solid sits at the origin (the commonest way users hand shapes
    over, and a special case for code that tests `center == 0`): its centroid (needs faces), the mean of its vertices,
    one of its vertices, or the centre of its bounding box."""
    V = np.asarray(V, dtype=float)
    if mode == "centroid":
        p = geom.mesh_moments(V, faces)["centroid"] if faces is not None else V.mean(axis=0)
    elif mode == "vertex_mean":
        p = V.mean(axis=0)
    elif mode == "vertex":
        p = V[k % len(V)]
    elif mode == "bbox":
        p = (V.min(axis=0) + V.max(axis=0)) / 2
    else:
        return V
    return V - np.asarray(p, dtype=float)


def is_identity_rotation(pl):
    return pl["quat"][1:] == [0.0, 0.0, 0.0]


# ------------------------------------------------------------------- tabulated raw data
_TAB = None


def tabulated_raw():
    """name -> vertex list, read straight from the repository's JSON (no coxeter code)."""
    global _TAB
    if _TAB is None:
        out = {}
        for fn in sorted(glob.glob(os.path.join(env.REPO, "coxeter", "families", "data", "*.json"))):
            fam = os.path.basename(fn)[:-5]
            if fam.startswith("_"):
                continue  # e.g. _previous_science1220869.json: not part of any family
            for k, v in json.load(open(fn)).items():
                if isinstance(v, dict) and "vertices" in v:
                    out[f"{fam}:{k}"] = v["vertices"]
        _TAB = out
    return _TAB


# ------------------------------------------------------------------------------- G-CVX
@st.composite
def convex3d(draw, max_n=30, kinds=("ellipsoid", "lattice", "prismatoid", "tabulated"), max_aspect_log=1.0):
    kind = draw(st.sampled_from(kinds))
    if kind == "ellipsoid":
        n = draw(st.integers(4, max_n))
        return {"kind": kind, "n": n, "noise": draw(noise(2 * n)),
                "axes": [draw(f(-max_aspect_log, max_aspect_log)) for _ in range(3)]}
    if kind == "lattice":
        k = draw(st.integers(1, 3))
        m = draw(st.integers(5, 18))
        pts = draw(st.lists(st.tuples(*[st.integers(-k, k)] * 3), min_size=m, max_size=m))
        return {"kind": kind, "pts": [list(p) for p in pts]}
    if kind == "prismatoid":
        sub = draw(st.sampled_from(["prism", "antiprism", "pyramid", "dipyramid", "frustum", "box"]))
        n = draw(st.integers(3, 10))
        regular = draw(st.booleans()) or sub == "antiprism"
        return {"kind": kind, "sub": sub, "n": n, "regular": regular, "noise": draw(noise(2 * n + 4)),
                "logh": draw(f(-1.3, 1.3)), "top": draw(f(0.3, 0.9)), "box": [draw(f(-1, 1)) for _ in range(3)]}
    if kind == "sliver":
        # a prism over a needle-thin triangle (smallest angle 1e-5..1e-3 rad): faces whose area is a tiny fraction of
        # the squared edge lengths that span them
        return {"kind": kind, "w": draw(f(0.0, 2.3)), "logt": draw(f(-5.0, -3.0)), "apex": draw(f(0.2, 0.8)), "th": draw(f(-1.0, 1.0))}
    if kind == "roofed":
        # a box with a very shallow pyramid on its top face: neighbouring facets that are nearly - but, at 2e-6..1e-2
        # of the size, unmistakably not - coplanar (dihedral angles a hair below pi)
        return {"kind": kind, "box": [draw(f(-0.5, 0.5)) for _ in range(3)], "logh": draw(f(-5.7, -2.0)),
                "at": [draw(f(0.2, 0.8)), draw(f(0.2, 0.8))], "both": draw(st.booleans())}
    names = sorted(tabulated_raw())
    return {"kind": "tabulated", "name": draw(st.sampled_from(names))}


def convex_polygon_xy(n, regular, nz):
    """Strictly convex n-gon in the plane, ccw, roughly unit size."""
    if regular:
        th = 2 * np.pi * np.arange(n) / n
        return np.stack([np.cos(th), np.sin(th)], axis=1)
    u = unit(nz[:n])
    th = 2 * np.pi * (np.arange(n) + 0.1 + 0.8 * u) / n  # gaps in (0.2, 1.8)*2pi/n: strictly convex
    ax = 0.6 + 0.8 * unit(nz[n:n + 1])[0]
    return np.stack([np.cos(th), ax * np.sin(th)], axis=1)


def build_convex(case):
    """-> dict(verts (N,3), info). Vertices are in (strictly) convex position."""
    k = case["kind"]
    if k == "ellipsoid":
        n = case["n"]
        u = unit(case["noise"])
        i = np.arange(n)
        z = 1 - (2 * i + 1) / n
        r = np.sqrt(1 - z * z)
        ph = i * GOLD
        P = np.stack([r * np.cos(ph), r * np.sin(ph), z], axis=1)
        sp = math.sqrt(4 * math.pi / n)
        # jitter by < 0.3 * lattice spacing in a random direction, then renormalise
        J = np.stack([np.cos(2 * np.pi * u[:n]), np.sin(2 * np.pi * u[:n]), 2 * u[n:] - 1], axis=1)
        P = P + 0.3 * sp * u[n:, None] * J
        P /= np.linalg.norm(P, axis=1)[:, None]
        ax = 10.0 ** np.asarray(case["axes"], dtype=float)
        V = P * ax
        return {"verts": V, "lattice": False, "aspect": float(ax.max() / ax.min())}
    if k == "sliver":
        w = 10.0 ** case["w"]
        hgt = w * 10.0 ** case["logt"]
        th = 10.0 ** case["th"]
        tri = [[0.0, 0.0], [w, 0.0], [case["apex"] * w, hgt]]
        V = [[x, y, z] for z in (0.0, th) for x, y in tri]
        return {"verts": np.array(V, dtype=float), "lattice": False, "aspect": float(w / hgt)}
    if k == "roofed":
        a, b, h = (10.0 ** np.asarray(case["box"], dtype=float)).tolist()
        V = [[x, y, z] for x in (0.0, a) for y in (0.0, b) for z in (0.0, h)]
        size = math.sqrt(a * a + b * b + h * h)
        rise = 10.0 ** case["logh"] * size
        V.append([case["at"][0] * a, case["at"][1] * b, h + rise])
        if case["both"]:
            V.append([case["at"][1] * a, case["at"][0] * b, -rise])
        return {"verts": np.array(V, dtype=float), "lattice": False, "aspect": float(max(a, b, h) / min(a, b, h)), "rise": rise / size}
    if k == "lattice":
        pts = sorted(set(tuple(p) for p in case["pts"]))
        ok = False
        if len(pts) >= 4:
            facets, _, isv = geom.convex_facets_int(pts)
            hv = [p for p, v in zip(pts, isv) if v]
            if len(facets) >= 4 and len(hv) >= 4:
                # is_vertex marks facet-polygon corners only -> strictly convex position
                ok = True
        if not ok:
            hv = [(1, 0, 0), (-1, 0, 0), (0, 1, 0), (0, -1, 0), (0, 0, 1), (0, 0, -1)]
        return {"verts": np.array(hv, dtype=float), "lattice": True, "aspect": 1.0}
    if k == "prismatoid":
        n, sub = case["n"], case["sub"]
        nz = case["noise"]
        h = 10.0 ** case["logh"]
        if sub == "box":
            a, b, c = 10.0 ** np.asarray(case["box"], dtype=float)
            V = np.array([[x, y, z] for x in (0, a) for y in (0, b) for z in (0, c)], dtype=float)
            return {"verts": V, "lattice": False, "aspect": float(max(a, b, c) / min(a, b, c)), "sub": sub}
        base = convex_polygon_xy(n, case["regular"], nz)
        inner = base.mean(axis=0) + 0.2 * (unit(nz[2 * n:2 * n + 2]) - 0.5)
        if sub == "prism":
            V = np.vstack([np.c_[base, np.zeros(n)], np.c_[base, np.full(n, h)]])
        elif sub == "antiprism":
            th = 2 * np.pi * (np.arange(n) + 0.5) / n
            top = np.stack([np.cos(th), np.sin(th)], axis=1)
            V = np.vstack([np.c_[base, np.zeros(n)], np.c_[top, np.full(n, h)]])
        elif sub == "pyramid":
            V = np.vstack([np.c_[base, np.zeros(n)], [[inner[0], inner[1], h]]])
        elif sub == "dipyramid":
            V = np.vstack([np.c_[base, np.zeros(n)], [[inner[0], inner[1], h]], [[inner[0], inner[1], -0.7 * h]]])
        else:  # frustum
            s = case["top"]
            top = inner + s * (base - inner)
            V = np.vstack([np.c_[base, np.zeros(n)], np.c_[top, np.full(n, h)]])
        return {"verts": V, "lattice": False, "aspect": float(max(h, 2) / min(h, 2)), "sub": sub}
    V = np.array(tabulated_raw()[case["name"]], dtype=float)
    return {"verts": V, "lattice": False, "aspect": 1.0, "name": case["name"]}


# ------------------------------------------------------------------------------ G-MESH
_DIRS = [(1, 0, 0), (-1, 0, 0), (0, 1, 0), (0, -1, 0), (0, 0, 1), (0, 0, -1)]
_TEMPLATES = {
    "single": [(0, 0, 0)],
    "L": [(0, 0, 0), (1, 0, 0), (2, 0, 0), (0, 1, 0)],
    "U": [(0, 0, 0), (1, 0, 0), (2, 0, 0), (0, 1, 0), (2, 1, 0), (0, 2, 0), (2, 2, 0)],
    "S": [(0, 0, 0), (1, 0, 0), (1, 1, 0), (2, 1, 0)],
    "cube2minus1": [(x, y, z) for x in (0, 1) for y in (0, 1) for z in (0, 1) if (x, y, z) != (1, 1, 1)],
    "ring": [(0, 0, 0), (1, 0, 0), (2, 0, 0), (0, 1, 0), (2, 1, 0), (0, 2, 0), (1, 2, 0), (2, 2, 0)],
    "T3d": [(0, 0, 0), (1, 0, 0), (2, 0, 0), (1, 1, 0), (1, 0, 1)],
    "stairs": [(0, 0, 0), (1, 0, 0), (1, 0, 1), (2, 0, 1), (2, 0, 2)],
}


def voxel_surface(cells):
    """Boundary of a polycube as (verts int (N,3), quad faces ccw from outside)."""
    cells = set(map(tuple, cells))
    vid = {}
    faces = []
    quads = {  # direction -> corner offsets ccw seen from outside
        (1, 0, 0): [(1, 0, 0), (1, 1, 0), (1, 1, 1), (1, 0, 1)],
        (-1, 0, 0): [(0, 0, 0), (0, 0, 1), (0, 1, 1), (0, 1, 0)],
        (0, 1, 0): [(0, 1, 0), (0, 1, 1), (1, 1, 1), (1, 1, 0)],
        (0, -1, 0): [(0, 0, 0), (1, 0, 0), (1, 0, 1), (0, 0, 1)],
        (0, 0, 1): [(0, 0, 1), (1, 0, 1), (1, 1, 1), (0, 1, 1)],
        (0, 0, -1): [(0, 0, 0), (0, 1, 0), (1, 1, 0), (1, 0, 0)],
    }
    for c in sorted(cells):
        for d in _DIRS:
            if (c[0] + d[0], c[1] + d[1], c[2] + d[2]) in cells:
                continue
            face = []
            for o in quads[d]:
                p = (c[0] + o[0], c[1] + o[1], c[2] + o[2])
                if p not in vid:
                    vid[p] = len(vid)
                face.append(vid[p])
            faces.append(face)
    verts = np.array(sorted(vid, key=vid.get), dtype=float)
    return verts, faces


def surface_is_manifold(faces):
    """Closed, consistently oriented, every edge in exactly two faces, every vertex link
    a single cycle."""
    from collections import defaultdict

    und = defaultdict(int)
    dirs = set()
    vfaces = defaultdict(list)
    for fi, fc in enumerate(faces):
        for i in range(len(fc)):
            a, b = fc[i], fc[(i + 1) % len(fc)]
            if (a, b) in dirs:
                return False
            dirs.add((a, b))
            und[frozenset((a, b))] += 1
            vfaces[a].append(fi)
    if any(v != 2 for v in und.values()):
        return False
    if any((b, a) not in dirs for a, b in dirs):
        return False
    # vertex links: faces around a vertex must form one cycle via shared edges at that vertex
    for v, fl in vfaces.items():
        nxt = {}
        for fi in fl:
            fc = faces[fi]
            i = fc.index(v)
            nxt[fc[(i - 1) % len(fc)]] = fc[(i + 1) % len(fc)]  # incoming neighbour -> outgoing neighbour
        start = next(iter(nxt))
        cur, cnt = start, 0
        while True:
            cur = nxt.get(cur)
            cnt += 1
            if cur is None:
                return False
            if cur == start:
                break
            if cnt > len(nxt):
                return False
        if cnt != len(nxt):
            return False
    return True


def grow_polycube(template, steps, max_cells=12, box=5):
    cells = list(_TEMPLATES[template])
    for sel, d in steps:
        if len(cells) >= max_cells:
            break
        c = cells[sel % len(cells)]
        dd = _DIRS[d % 6]
        nc = (c[0] + dd[0], c[1] + dd[1], c[2] + dd[2])
        if nc in cells:
            continue
        trial = cells + [nc]
        lo = np.min(trial, axis=0)
        hi = np.max(trial, axis=0)
        if np.any(hi - lo >= box):
            continue
        _, faces = voxel_surface(trial)
        if surface_is_manifold(faces):
            cells = trial
    return cells


@st.composite
def mesh3d(draw, kinds=("voxel", "extrusion", "star", "convex"), max_n=24):
    kind = draw(st.sampled_from(kinds))
    if kind == "voxel":
        tpl = draw(st.sampled_from(sorted(_TEMPLATES)))
        k = draw(st.integers(0, 8))
        steps = draw(st.lists(st.tuples(st.integers(0, 11), st.integers(0, 5)), min_size=k, max_size=k))
        return {"kind": kind, "template": tpl, "steps": [list(s) for s in steps],
                "stretch": [draw(f(-0.7, 0.7)) for _ in range(3)] if draw(st.booleans()) else [0.0, 0.0, 0.0]}
    if kind == "extrusion":
        from gen import poly

        return {"kind": kind, "poly": draw(poly.simple_polygon(max_n=min(14, max_n))), "logh": draw(f(-1, 1))}
    if kind == "star":
        n = draw(st.integers(5, max_n))
        return {"kind": kind, "n": n, "noise": draw(noise(3 * n)), "axes": [draw(f(-0.5, 0.5)) for _ in range(3)]}
    return {"kind": "convex", "cvx": draw(convex3d(max_n=max_n, kinds=("ellipsoid", "lattice", "prismatoid")))}


def build_mesh(case):
    """-> dict(verts, faces (lists of ints, convex, ccw from outside), flags...)."""
    k = case["kind"]
    if k == "voxel":
        cells = grow_polycube(case["template"], case["steps"])
        V, F = voxel_surface(cells)
        st_ = 10.0 ** np.asarray(case["stretch"], dtype=float)
        ring = _voxel_genus(cells, V, F)
        return {"verts": V * st_, "faces": F, "cells": cells, "stretch": st_, "convexfaces": True,
                "genus": ring, "lattice": bool(np.all(st_ == 1.0))}
    if k == "extrusion":
        from gen import poly

        xy = poly.build_polygon_xy(case["poly"])
        n = len(xy)
        h = 10.0 ** case["logh"]
        V = np.vstack([np.c_[xy, np.zeros(n)], np.c_[xy, np.full(n, h)]])
        tris = poly.ear_clip(xy)  # ccw triangles (indices)
        F = [[a, c, b] for a, b, c in tris]  # bottom: seen from below -> reverse
        F += [[a + n, b + n, c + n] for a, b, c in tris]
        F += [[i, (i + 1) % n, (i + 1) % n + n, i + n] for i in range(n)]
        return {"verts": V, "faces": F, "convexfaces": True, "genus": 0, "lattice": False}
    if k == "star":
        n = case["n"]
        base = build_convex({"kind": "ellipsoid", "n": n, "noise": case["noise"][:2 * n], "axes": [0, 0, 0]})["verts"]
        facets, _, _, _ = geom.convex_facets(base)
        fac = 0.4 + 1.2 * unit(case["noise"][2 * n:])
        V = base * fac[:, None] * (10.0 ** np.asarray(case["axes"], dtype=float))
        F = []
        for fc in facets:  # points on a sphere in general position: triangles; fan otherwise
            for i in range(1, len(fc) - 1):
                F.append([fc[0], fc[i], fc[i + 1]])
        return {"verts": V, "faces": F, "convexfaces": True, "genus": 0, "lattice": False}
    c = build_convex(case["cvx"])
    facets, _, _, _ = geom.convex_facets(c["verts"])
    return {"verts": c["verts"], "faces": [list(map(int, fc)) for fc in facets], "convexfaces": True, "genus": 0,
            "lattice": c["lattice"], "convex": True}


def _voxel_genus(cells, V, F):
    e = set()
    for fc in F:
        for i in range(4):
            e.add(frozenset((fc[i], fc[(i + 1) % 4])))
    chi = len(V) - len(e) + len(F)
    return (2 - chi) // 2


def star_shaped_about(verts, faces, p, rel=1e-9):
    """Is the solid star-shaped about p in the sense that p is strictly on the inner
    side of every face plane?"""
    V = np.asarray(verts, dtype=float)
    for fc in faces:
        n = geom.newell_normal(V[fc])
        if np.dot(n, p - V[fc[0]]) > -rel * np.linalg.norm(n):
            return False
    return True
