"""Query-point generators (G-POINTS) for containment checks."""
import numpy as np
from hypothesis import strategies as st

from gen.zoo import noise, unit


@st.composite
def point_noise(draw, n):
    """Raw material for n query points: 6 numbers per point."""
    return {"n": n, "nz": draw(noise(6 * n))}


def points_for_mesh(pn, V, F, size):
    """n points around a polyhedral surface (faces convex, outward):
    40% uniform in the 1.5x bounding box, 30% at signed distance +-10^U(-6,-1)*size from a
    random point of a random face, 20% uniform but sharing 1 or 2 coordinates exactly
    with a vertex, 10% next to a vertex/edge midpoint.  Returns (P, kinds)."""
    n = pn["n"]
    u = unit(pn["nz"]).reshape(n, 6)
    V = np.asarray(V, dtype=float)
    lo, hi = V.min(axis=0), V.max(axis=0)
    c, h = (lo + hi) / 2, (hi - lo) / 2
    P = c + 1.5 * h * (2 * u[:, :3] - 1)
    kinds = np.zeros(n, dtype=int)
    for i in range(n):
        m = u[i, 3]
        if m < 0.4:
            continue
        if m < 0.7:
            f = F[int(u[i, 4] * len(F)) % len(F)]
            k = 1 + int(u[i, 5] * (len(f) - 2)) % (len(f) - 2)
            a, b, cc = V[f[0]], V[f[k]], V[f[k + 1]]
            r1, r2 = u[i, 0], u[i, 1]
            if r1 + r2 > 1:
                r1, r2 = 1 - r1, 1 - r2
            q = a + r1 * (b - a) + r2 * (cc - a)
            nn = np.cross(b - a, cc - a)
            ln = np.linalg.norm(nn)
            if ln == 0:
                continue
            d = 10.0 ** (-6 + 5 * u[i, 2]) * size
            sgn = 1 if (int(u[i, 5] * 1000) % 2) else -1
            P[i] = q + sgn * d * nn / ln
            kinds[i] = 1
        elif m < 0.9:
            v = V[int(u[i, 4] * len(V)) % len(V)]
            k = int(u[i, 5] * 6) % 6
            mask = [(0,), (1,), (2,), (0, 1), (0, 2), (1, 2)][k]
            for t in mask:
                P[i, t] = v[t]
            kinds[i] = 2
        else:
            v = V[int(u[i, 4] * len(V)) % len(V)]
            w = V[int(u[i, 5] * len(V)) % len(V)]
            q = v if u[i, 0] < 0.5 else (v + w) / 2
            d = 10.0 ** (-5 + 4 * u[i, 1]) * size
            dirn = 2 * u[i, :3] - 1
            dirn[0] = dirn[0] if abs(dirn[0]) > 1e-3 else 0.5
            P[i] = q + d * dirn / np.linalg.norm(dirn)
            kinds[i] = 3
    return P, kinds


def points_for_ball(pn, center, axes):
    """Points around an ellipsoid/sphere: 50% uniform in the 1.3x box, 50% at relative
    radial position 1 +- 10^U(-6,-1) along random directions; all octants."""
    n = pn["n"]
    u = unit(pn["nz"]).reshape(n, 6)
    axes = np.asarray(axes, dtype=float)
    P = 1.3 * axes * (2 * u[:, :3] - 1)
    kinds = np.zeros(n, dtype=int)
    for i in range(n):
        if u[i, 3] < 0.5:
            continue
        d = 2 * u[i, :3] - 1
        if np.linalg.norm(d) < 1e-3:
            d = np.array([1.0, 0, 0])
        if u[i, 4] < 0.25:  # along a coordinate axis or in a coordinate plane
            d[int(u[i, 4] * 12) % 3] = 0.0
            if not d.any():
                d[0] = 1.0
        d = d / np.linalg.norm(d)
        eps = 10.0 ** (-6 + 5 * u[i, 5])
        sgn = 1 if (int(u[i, 5] * 1000) % 2) else -1
        P[i] = axes * d * (1 + sgn * eps)
        kinds[i] = 1
    return P + np.asarray(center, dtype=float), kinds


def points_for_polygon(pn, xy, size):
    """n 2-D points around a polygon: 40% uniform in the 1.3x box, 30% at signed distance
    +-10^U(-6,-1)*size from a random point of a random edge, 20% sharing x or y exactly
    with a vertex, 10% next to a vertex."""
    n = pn["n"]
    u = unit(pn["nz"]).reshape(n, 6)
    xy = np.asarray(xy, dtype=float)
    lo, hi = xy.min(axis=0), xy.max(axis=0)
    c, h = (lo + hi) / 2, (hi - lo) / 2
    P = c + 1.3 * h * (2 * u[:, :2] - 1)
    kinds = np.zeros(n, dtype=int)
    m = len(xy)
    for i in range(n):
        t = u[i, 3]
        if t < 0.4:
            continue
        if t < 0.7:
            j = int(u[i, 4] * m) % m
            a, b = xy[j], xy[(j + 1) % m]
            q = a + u[i, 0] * (b - a)
            e = b - a
            nn = np.array([e[1], -e[0]]) / np.linalg.norm(e)
            d = 10.0 ** (-6 + 5 * u[i, 2]) * size
            sgn = 1 if (int(u[i, 5] * 1000) % 2) else -1
            P[i] = q + sgn * d * nn
            kinds[i] = 1
        elif t < 0.9:
            v = xy[int(u[i, 4] * m) % m]
            k = int(u[i, 5] * 2) % 2
            P[i, k] = v[k]
            if u[i, 0] < 0.3:
                # aligned with a vertex but beyond the bounding box in the other coordinate
                P[i, 1 - k] = c[1 - k] + (1.2 + 0.6 * u[i, 1]) * h[1 - k] * (1 if u[i, 2] < 0.5 else -1)
            kinds[i] = 2
        else:
            v = xy[int(u[i, 4] * m) % m]
            d = 10.0 ** (-5 + 4 * u[i, 1]) * size
            ang = 2 * np.pi * u[i, 0]
            P[i] = v + d * np.array([np.cos(ang), np.sin(ang)])
            kinds[i] = 3
    return P, kinds
