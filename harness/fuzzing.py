"""Run an atheris campaign for one clause and turn crashes into replay files."""
import glob
import hashlib
import json
import os
import shutil
import subprocess
import sys

from . import env


def available():
    try:
        env.ensure_deps(mods=("mpmath",), optional=("atheris",))
        sys.path.insert(1, env.DEPS)
        import atheris  # noqa: F401

        return True
    except Exception:
        return False


def campaign(check, clause, decoder, runs, seed, seeds=(), max_len=64, timeout=3600):
    """-> dict(executions, crashes=[(bucket, case)], note). A fresh corpus directory under .work is used and removed."""
    from fuzz import decoders

    work = os.path.join(env.ROOT, ".work", f"fuzz_{check}_{clause}_{os.getpid()}")
    shutil.rmtree(work, ignore_errors=True)
    corpus = os.path.join(work, "corpus")
    os.makedirs(corpus)
    for i, s in enumerate(seeds):
        open(os.path.join(corpus, f"seed{i}"), "wb").write(bytes(s))
    cmd = [sys.executable, os.path.join(env.ROOT, "fuzz", "driver.py"), check, clause, decoder, corpus, f"-runs={runs}", f"-seed={seed or 1}",
           f"-max_len={max_len}", f"-artifact_prefix={work}/", "-print_final_stats=1", "-verbosity=0"]
    envv = dict(os.environ, PYTHONHASHSEED="0")
    try:
        p = subprocess.run(cmd, capture_output=True, text=True, timeout=timeout, env=envv, cwd=env.ROOT)
        out = p.stdout + p.stderr
    except subprocess.TimeoutExpired as e:
        out = (e.stdout or "") + (e.stderr or "") if isinstance(e.stdout, str) else ""
        out += "\nTIMEOUT"
    execs = 0
    for line in out.splitlines():
        if "stat::number_of_executed_units" in line:
            execs = int(line.split()[-1])
    crashes = []
    dec = getattr(decoders, decoder)
    for f in sorted(glob.glob(os.path.join(work, "crash-*"))):
        data = open(f, "rb").read()
        bucket = "unknown"
        for line in out.splitlines():
            if "ORACLE " in line:
                bucket = line.split("ORACLE ", 1)[1].strip()
        crashes.append((bucket, dec(data), data.hex()))
    note = "" if execs or crashes else out[-400:]
    corpus_n = len(os.listdir(corpus))
    shutil.rmtree(work, ignore_errors=True)
    return {"executions": execs, "crashes": crashes, "note": note, "corpus": corpus_n}
