"""Clause runner: generated-input search, bucketed collection, shrinking, evidence.

A *clause* is one Hypothesis test: a strategy producing a JSON-able ``case`` and a
function ``fn(case, rec)`` that builds the concrete input, calls the code under test
and reports every disagreement with the oracle through ``rec``.  Disagreements do not
raise: they are collected into *buckets* keyed by (clause, observable, signature) so
that one shallow defect does not hide what lies behind it.  Buckets listed in
KNOWN_FINDINGS.txt are excluded by construction (and counted); the first case of any
other bucket is searched for again by a Hypothesis run that fails only for that bucket,
which shrinks it to a minimal reproduction that becomes the replay file.
"""
import collections
import hashlib
import importlib
import json
import multiprocessing
import os
import random
import sys
import time
import traceback
import warnings

import numpy as np

from . import env
from .env import HarnessError
from oracle.geom import OracleUnreliable

EPS = 2.0**-52


# --------------------------------------------------------------------------- recorder
def _jsonable(x, depth=0):
    if isinstance(x, (np.floating, float)):
        return float(x) if np.isfinite(x) else repr(float(x))
    if isinstance(x, (np.integer, int)) and not isinstance(x, bool):
        return int(x)
    if isinstance(x, (bool, np.bool_)):
        return bool(x)
    if isinstance(x, complex):
        return [x.real, x.imag]
    if isinstance(x, np.ndarray):
        if x.size > 400:
            return {"shape": list(x.shape), "head": _jsonable(x.ravel()[:60])}
        return _jsonable(x.tolist(), depth + 1)
    if isinstance(x, dict):
        return {str(k): _jsonable(v, depth + 1) for k, v in x.items()}
    if isinstance(x, (list, tuple, set, frozenset)):
        x = list(x)
        if len(x) > 400:
            return {"len": len(x), "head": _jsonable(x[:60], depth + 1)}
        return [_jsonable(v, depth + 1) for v in x]
    if x is None or isinstance(x, str):
        return x
    return repr(x)[:200]


class Rec:
    """Per-case recorder handed to the clause function."""

    def __init__(self):
        self.fails = []
        self.labels = set()
        self.nontrivial = False
        self.ratios = {}
        self.concrete = None
        self.asserts = 0

    def label(self, *names):
        for n in names:
            if n:
                self.labels.add(str(n))

    def fail(self, obs, sig=None, **detail):
        sig = dict(sig or {})
        self.fails.append({"obs": obs, "sig": {k: str(v) for k, v in sig.items()},
                           "detail": _jsonable(detail)})

    def check(self, cond, obs, sig=None, **detail):
        self.asserts += 1
        if not cond:
            self.fail(obs, sig, **detail)
        return bool(cond)

    def close(self, obs, got, want, tol, sig=None, **detail):
        """|got - want| <= tol element-wise (tol scalar or array); records the margin."""
        self.asserts += 1
        try:
            g = np.asarray(got, dtype=float)
            w = np.asarray(want, dtype=float)
        except Exception:
            try:
                g = np.asarray(got, dtype=complex)
                w = np.asarray(want, dtype=complex)
            except Exception:
                self.fail(obs, sig, got=got, want=want, why="not numeric", **detail)
                return False
        if g.shape != w.shape:
            try:
                g = np.broadcast_to(g, w.shape) if g.size <= w.size else g
                w = np.broadcast_to(w, g.shape)
            except ValueError:
                self.fail(obs, sig, got=got, want=want, why="shape", **detail)
                return False
        err = np.abs(g - w)
        t = np.broadcast_to(np.asarray(tol, dtype=float), err.shape)
        # identical non-finite entries (nan/nan, inf/inf of the same sign) count as equal
        with np.errstate(invalid="ignore"):
            samenf = (np.isnan(g) & np.isnan(w)) | ((g == w) & ~np.isfinite(g.real if np.iscomplexobj(g) else g))
        err = np.where(samenf, 0.0, err)
        bad = ~(err <= t)
        with np.errstate(divide="ignore", invalid="ignore"):
            r = np.where(t > 0, err / t, np.where(err == 0, 0.0, np.inf))
        r = float(np.nanmax(r)) if r.size else 0.0
        if not bad.any():
            self.ratios[obs] = max(self.ratios.get(obs, 0.0), r)
            return True
        self.fail(obs, sig, got=got, want=want, tol=float(np.max(t)), err=float(np.nanmax(err))
                  if np.isfinite(err).any() else "nan", **detail)
        return False


class Clause:
    def __init__(self, name, strategy, fn, quick, thorough, rule, floors=None, shards=16, enumerate_cases=None):
        """``enumerate_cases(tier)`` (optional) returns an explicit finite list of cases that is run
        completely instead of drawing from ``strategy`` (exhaustive enumeration of a finite space)."""
        self.enumerate_cases = enumerate_cases
        self.name = name
        self.strategy = strategy
        self.fn = fn
        self.quick = quick
        self.thorough = thorough
        self.rule = rule
        self.floors = floors or {}
        self.shards = shards


# ---------------------------------------------------------------------- known findings
class Finding:
    def __init__(self, prop, fid, clause, obs, sig, text):
        self.prop, self.fid, self.clause, self.obs, self.sig, self.text = (
            prop, fid, clause, obs, sig, text)

    def matches(self, prop, clause, obs, sig):
        if prop != self.prop:
            return False
        if self.clause not in ("*", clause) or self.obs not in ("*", obs):
            return False
        return all(sig.get(k) == v for k, v in self.sig.items())


def load_findings(path=None):
    path = path or os.path.join(env.ROOT, "KNOWN_FINDINGS.txt")
    out = []
    if not os.path.exists(path):
        return out
    for line in open(path):
        line = line.strip()
        if not line.startswith("finding:"):
            continue
        head, _, text = line[len("finding:"):].partition("::")
        kv = dict(tok.split("=", 1) for tok in head.split() if "=" in tok and not tok.startswith("sig="))
        sigtok = [tok for tok in head.split() if tok.startswith("sig=")]
        sig = {}
        if sigtok and sigtok[0] != "sig=":
            sig = dict(p.split("=", 1) for p in sigtok[0][4:].split(","))
        out.append(Finding(kv["property"], kv.get("id", "?"), kv.get("clause", "*"),
                           kv.get("obs", "*"), sig, text.strip()))
    return out


# --------------------------------------------------------------------------- execution
def _seed(*parts):
    h = hashlib.blake2b(":".join(str(p) for p in parts).encode(), digest_size=8).hexdigest()
    return int(h, 16) % (2**32)


def _case_hash(case):
    return int(hashlib.blake2b(json.dumps(case, sort_keys=True, default=str).encode(),
                               digest_size=8).hexdigest(), 16)


def bucket_key(clause, f):
    return clause + "|" + f["obs"] + "|" + ",".join(f"{k}={v}" for k, v in sorted(f["sig"].items()))


def run_case(clause, case):
    """Run one case; code-under-test exceptions become failures, ours propagate."""
    from hypothesis.errors import UnsatisfiedAssumption

    rec = Rec()
    np.random.seed(12345)  # coxeter's miniball retry path draws from numpy's global RNG
    random.seed(12345)  # miniball itself picks its pivots with the random module
    try:
        with warnings.catch_warnings():
            warnings.simplefilter("ignore")
            with np.errstate(all="ignore"):
                clause.fn(case, rec)
    except UnsatisfiedAssumption:
        raise
    except HarnessError:
        raise
    except OracleUnreliable:
        rec.fails.clear()
        rec.nontrivial = False
        rec.labels = {"oracle_abstained"}
    except Exception as e:  # noqa: BLE001
        tb = traceback.extract_tb(e.__traceback__)
        cox = [f for f in tb if os.path.abspath(f.filename).startswith(env.REPO + os.sep)]
        if not cox:
            raise
        rec.fail("exception", {"type": type(e).__name__, "where": cox[-1].name},
                 msg=str(e)[:300], line=f"{os.path.relpath(cox[-1].filename, env.REPO)}:{cox[-1].lineno}")
    return rec


def load_clauses(check_id):
    env.ensure_deps()
    env.import_coxeter()
    mod = importlib.import_module(f"checks.{check_id.lower()}")
    clauses = mod.clauses()
    return mod, {c.name: c for c in clauses}


def _settings(n, shrink=False):
    from hypothesis import HealthCheck, Phase, settings

    return settings(max_examples=n, database=None, deadline=None, derandomize=False,
                    report_multiple_bugs=False, suppress_health_check=list(HealthCheck),
                    phases=[Phase.generate, Phase.shrink] if shrink else [Phase.generate],
                    print_blob=False)


def run_shard(args):
    check_id, cname, shard, n, seed_base = args
    from hypothesis import given, seed

    _, clauses = load_clauses(check_id)
    clause = clauses[cname]
    sd = _seed(seed_base, check_id, cname, shard)
    res = {"clause": cname, "shard": shard, "seed": sd, "n": n, "cases": 0, "labels": collections.Counter(),
           "nontrivial": set(), "buckets": {}, "samples": [], "ratios": {}, "asserts": 0}

    def t(case):
        rec = run_case(clause, case)
        res["cases"] += 1
        res["asserts"] += rec.asserts
        res["labels"].update(rec.labels)
        if rec.nontrivial:
            res["nontrivial"].add(_case_hash(case))
            if len(res["samples"]) < 2:
                res["samples"].append({"case": _jsonable(case), "input": _jsonable(rec.concrete),
                                       "labels": sorted(rec.labels)})
        for k, v in rec.ratios.items():
            if v > res["ratios"].get(k, 0.0):
                res["ratios"][k] = v
        for f in rec.fails:
            key = bucket_key(cname, f)
            b = res["buckets"].get(key)
            if b is None:
                res["buckets"][key] = {"count": 1, "case": case, "fail": f, "input": _jsonable(rec.concrete),
                                       "shard": shard, "seed": sd, "n": n, "index": res["cases"]}
            else:
                b["count"] += 1

    if clause.enumerate_cases is not None:
        tier, nshards = n
        for case in clause.enumerate_cases(tier)[shard::nshards]:
            t(case)
    else:
        seed(sd)(_settings(n)(given(clause.strategy)(t)))()
    return res


class _Abort(BaseException):
    pass


def shrink_bucket(args):
    """Re-find the bucket with the same seed and let Hypothesis shrink it."""
    check_id, cname, key, sd, n, budget = args
    from hypothesis import given, seed

    _, clauses = load_clauses(check_id)
    clause = clauses[cname]
    best = {}
    t0 = time.time()
    if clause.enumerate_cases is not None:
        return key, best

    @seed(sd)
    @_settings(n, shrink=True)
    @given(clause.strategy)
    def t(case):
        if best and time.time() - t0 > budget:
            raise _Abort()
        rec = run_case(clause, case)
        hit = [f for f in rec.fails if bucket_key(cname, f) == key]
        if hit:
            best.update(case=case, fail=hit[0], input=_jsonable(rec.concrete),
                        all=[bucket_key(cname, f) for f in rec.fails])
            raise AssertionError(key)

    try:
        t()
    except _Abort:
        pass
    except AssertionError:
        pass
    except Exception as e:  # Flaky etc.: keep what we have
        best.setdefault("note", f"shrink ended with {type(e).__name__}")
    return key, best


def replay(check_id, path):
    _, clauses = load_clauses(check_id)
    data = json.load(open(path))
    clause = clauses[data["clause"]]
    rec = run_case(clause, data["case"])
    return data, rec


# ------------------------------------------------------------------------------ driver
def main(check_id, tier, replay_path=None):
    t0 = time.time()
    seed_base = int(os.environ.get("VERIF_SEED", "1"))
    prop = check_id.upper()
    findings = [f for f in load_findings() if f.prop == prop]
    mod, clauses = load_clauses(prop)

    def known(cname, f):
        for kf in findings:
            if kf.matches(prop, cname, f["obs"], f["sig"]):
                return kf
        return None

    if replay_path:
        data, rec = replay(prop, replay_path)
        new = [f for f in rec.fails if not known(data["clause"], f)]
        for f in rec.fails:
            print(("KNOWN " if known(data["clause"], f) else "FAIL  ") + bucket_key(data["clause"], f),
                  json.dumps(f["detail"])[:600])
        if new:
            print(f"VIOLATION property={prop} replay={replay_path}")
            return 1
        print("replay: property held on this input")
        return 0

    if hasattr(mod, "selftest"):
        mod.selftest()

    tasks = []
    for c in clauses.values():
        if c.enumerate_cases is not None:
            tasks += [(prop, c.name, s, (tier, c.shards), seed_base) for s in range(c.shards)]
            continue
        n = c.quick if tier == "quick" else c.thorough
        shards = max(1, min(c.shards, n // 8 or 1))
        per = -(-n // shards)
        tasks += [(prop, c.name, s, per, seed_base) for s in range(shards)]
    procs = int(os.environ.get("VERIF_PROCS", "16"))
    ctx = multiprocessing.get_context("fork")
    if procs > 1 and len(tasks) > 1:
        with ctx.Pool(min(procs, len(tasks))) as pool:
            results = pool.map(run_shard, tasks, chunksize=1)
    else:
        results = [run_shard(t) for t in tasks]

    # merge
    per_clause = {}
    for r in results:
        m = per_clause.setdefault(r["clause"], {"cases": 0, "labels": collections.Counter(), "nontrivial": set(),
                                                "buckets": {}, "samples": [], "ratios": {}, "asserts": 0})
        m["cases"] += r["cases"]
        m["asserts"] += r["asserts"]
        m["labels"].update(r["labels"])
        m["nontrivial"] |= r["nontrivial"]
        if len(m["samples"]) < 3:
            m["samples"] += r["samples"][:1]
        for k, v in r["ratios"].items():
            m["ratios"][k] = max(m["ratios"].get(k, 0.0), v)
        for k, b in r["buckets"].items():
            if k in m["buckets"]:
                m["buckets"][k]["count"] += b["count"]
            else:
                m["buckets"][k] = b

    excluded = collections.Counter()
    new_buckets = []
    for cname, m in per_clause.items():
        for key, b in m["buckets"].items():
            kf = known(cname, b["fail"])
            if kf:
                excluded[kf.fid] += b["count"]
            else:
                new_buckets.append((cname, key, b))

    # vacuity guards
    vac = []
    for cname, m in per_clause.items():
        c = clauses[cname]
        if m["cases"] == 0:
            vac.append(f"{cname}: no cases")
        for lab, floor in c.floors.items():
            frac = m["labels"].get(lab, 0) / max(1, m["cases"])
            if frac < floor:
                vac.append(f"{cname}: label {lab} at {frac:.3f} < floor {floor}")

    # shrink new buckets (bounded number, in parallel)
    violations = []
    if new_buckets:
        budget = 45 if tier == "quick" else 240
        new_buckets.sort(key=lambda x: (-x[2]["count"], x[1]))
        todo = new_buckets[:12]
        jobs = [(prop, cname, key, b["seed"], b["n"], budget) for cname, key, b in todo]
        if procs > 1 and len(jobs) > 1:
            with ctx.Pool(min(procs, len(jobs))) as pool:
                shrunk = dict(pool.map(shrink_bucket, jobs, chunksize=1))
        else:
            shrunk = dict(shrink_bucket(j) for j in jobs)
        os.makedirs(os.path.join(env.ROOT, "replays", prop), exist_ok=True)
        for cname, key, b in new_buckets:
            s = shrunk.get(key) or {}
            case = s.get("case", b["case"])
            h = hashlib.blake2b(key.encode(), digest_size=5).hexdigest()
            rel = os.path.join("replays", prop, f"{cname}-{h}.json")
            with open(os.path.join(env.ROOT, rel), "w") as fh:
                json.dump({"property": prop, "clause": cname, "bucket": key, "count": b["count"],
                           "shrunk": bool(s.get("case") is not None), "case": case,
                           "input": s.get("input", b["input"]), "fail": s.get("fail", b["fail"]),
                           "first_unshrunk_case": b["case"], "seed": seed_base, "tier": tier}, fh, indent=1, default=str)
            violations.append((key, rel, b["count"]))

    # coverage-guided fuzzing campaigns (atheris), thorough tier by default
    fuzz_ev = {}
    if hasattr(mod, "fuzz_targets") and (tier == "thorough" or os.environ.get("VERIF_FUZZ") == "1"):
        from . import fuzzing

        if not fuzzing.available():
            fuzz_ev = {"skipped": "atheris could not be provided offline"}
        else:
            for tgt in mod.fuzz_targets():
                runs = tgt["runs_thorough"] if tier == "thorough" else tgt["runs_quick"]
                r = fuzzing.campaign(prop, tgt["clause"], tgt["decoder"], runs, seed_base, seeds=tgt.get("seeds", ()), max_len=tgt.get("max_len", 64))
                fuzz_ev[tgt["clause"] + ":" + tgt["decoder"]] = {"executions": r["executions"], "corpus": r["corpus"], "crashes": len(r["crashes"]),
                                                                 "note": r["note"][:200]}
                for bucket, case, hexdata in r["crashes"]:
                    os.makedirs(os.path.join(env.ROOT, "replays", prop), exist_ok=True)
                    h = hashlib.blake2b((bucket + hexdata).encode(), digest_size=5).hexdigest()
                    rel = os.path.join("replays", prop, f"fuzz-{tgt['clause']}-{h}.json")
                    with open(os.path.join(env.ROOT, rel), "w") as fh:
                        json.dump({"property": prop, "clause": tgt["clause"], "bucket": bucket, "case": case, "fuzz_input_hex": hexdata,
                                   "seed": seed_base, "tier": tier, "found_by": "atheris"}, fh, indent=1, default=str)
                    violations.append((bucket, rel, 1))

    # evidence
    evaluations = sum(m["cases"] for m in per_clause.values()) + sum(v.get("executions", 0) for v in fuzz_ev.values() if isinstance(v, dict))
    distinct = sum(len(m["nontrivial"]) for m in per_clause.values())
    samples = []
    for cname, m in per_clause.items():
        for s in m["samples"][:2]:
            samples.append({"clause": cname, **s})
    ev = {
        "property_id": prop, "tier": tier, "seed": seed_base, "level": "exploration",
        "coverage": {
            "evaluations": evaluations,
            "distinct_nontrivial": distinct,
            "rule": getattr(mod, "RULE", "") + " || " + " | ".join(f"{c.name}: {c.rule}" for c in clauses.values()),
            "samples": samples,
            "oracle_assertions": sum(m["asserts"] for m in per_clause.values()),
            "per_clause": {cname: {"cases": m["cases"], "distinct_nontrivial": len(m["nontrivial"]),
                                   "labels": dict(m["labels"].most_common()),
                                   "max_error_over_tolerance": {k: float(f"{v:.3g}") for k, v in sorted(m["ratios"].items())},
                                   "buckets": {k: b["count"] for k, b in m["buckets"].items()}}
                           for cname, m in per_clause.items()},
            "excluded_known": dict(excluded),
            "fuzzing": fuzz_ev,
            "exhaustive": bool(getattr(mod, "EXHAUSTIVE", False)),
        },
        "assumptions": list(getattr(mod, "ASSUMPTIONS", [])),
        "wall_s": round(time.time() - t0, 2),
        "violations": len(violations),
    }
    os.makedirs(os.path.join(env.ROOT, "evidence"), exist_ok=True)
    evpath = os.path.join(env.ROOT, "evidence", f"{prop}.json")
    with open(evpath, "w") as fh:
        json.dump(ev, fh, indent=1, default=str)

    for kf in findings:
        print(f"KNOWN-FINDING: property={prop} {kf.fid}: {kf.text} [{excluded.get(kf.fid, 0)} cases excluded in this run]")
    print(f"{prop} tier={tier} seed={seed_base} cases={evaluations} distinct_nontrivial={distinct} "
          f"asserts={ev['coverage']['oracle_assertions']} wall={ev['wall_s']}s")
    for cname, m in per_clause.items():
        print(f"  {cname}: cases={m['cases']} nontrivial={len(m['nontrivial'])} labels={dict(m['labels'].most_common(8))}")
    if violations:
        for key, rel, cnt in violations:
            print(f"  bucket {key} x{cnt}")
            print(f"VIOLATION property={prop} replay={rel}")
        return 1
    if vac:
        for v in vac:
            print("HARNESS: generator degenerated:", v, file=sys.stderr)
        return 2
    if distinct < 2:
        print("HARNESS: fewer than 2 distinct non-trivial cases", file=sys.stderr)
        return 2
    return 0
