"""Environment bootstrap: offline third-party deps and the code under test.

Everything is resolved relative to this checkout (never a hard-coded /verif) and the
code under test is always the working tree named by VERIF_REPO (default /repo).
"""
import fcntl
import importlib
import os
import subprocess
import sys

ROOT = os.path.dirname(os.path.dirname(os.path.abspath(__file__)))
DEPS = os.path.join(ROOT, ".deps")
WHEELS = "/opt/veriftools/wheels"
REPO = os.path.abspath(os.environ.get("VERIF_REPO", "/repo"))


class HarnessError(Exception):
    """Something is wrong with the machinery (never reported as a VIOLATION)."""


def _try(mod):
    try:
        importlib.import_module(mod)
        return True
    except Exception:
        return False


def ensure_deps(mods=("mpmath",), optional=("jsonschema",)):
    """Make sure the pure-Python helper packages are importable; install offline."""
    if DEPS not in sys.path:
        sys.path.insert(1, DEPS)
    missing = [m for m in mods if not _try(m)]
    missing_opt = [m for m in optional if not _try(m)]
    if not missing and not missing_opt:
        return
    os.makedirs(DEPS, exist_ok=True)
    with open(os.path.join(DEPS, ".lock"), "w") as lock:
        fcntl.flock(lock, fcntl.LOCK_EX)
        importlib.invalidate_caches()
        todo = [m for m in list(mods) + list(optional) if not _try(m)]
        if todo:
            cmd = [sys.executable, "-m", "pip", "install", "--quiet", "--no-index",
                   "--find-links", WHEELS, "--target", DEPS, "--upgrade"] + todo
            subprocess.run(cmd, stdout=subprocess.DEVNULL, stderr=subprocess.DEVNULL)
            importlib.invalidate_caches()
        fcntl.flock(lock, fcntl.LOCK_UN)
    still = [m for m in mods if not _try(m)]
    if still:
        raise HarnessError(f"cannot provide required packages offline: {still}")


def import_coxeter():
    """Import coxeter from the working tree under test and nothing else."""
    if REPO not in sys.path[:1]:
        sys.path.insert(0, REPO)
    import coxeter

    f = os.path.abspath(coxeter.__file__)
    if not f.startswith(REPO + os.sep):
        raise HarnessError(f"coxeter imported from {f}, expected under {REPO}")
    return coxeter
