"""Evaluate a short sequence of public calls in a *fresh* interpreter.

Module- and class-level state (memoised helpers, shared mutable defaults, registries filled on first use) makes
the answer of a call depend on what the process did before.  Cases executed inside a long-lived shard process
cannot see that reliably (whichever case came first in the shard decided), so checks that care about "the first
call in a process" run their call sequence here: one interpreter per case, nothing imported but numpy and the
coxeter tree under test."""
import json
import subprocess
import sys

from harness import env

_PRELUDE = r"""
import json, sys
sys.path.insert(0, %(repo)r)
import numpy as np
import coxeter
import coxeter.families
import coxeter.io

def _j(v):
    if isinstance(v, coxeter.shapes.base_classes.Shape):
        d = {"__shape__": type(v).__name__}
        for k in ("vertices", "radius", "a", "b", "c", "centroid"):
            if hasattr(type(v), k) or hasattr(v, k):
                try:
                    d[k] = _j(getattr(v, k))
                except Exception as e:
                    d[k] = {"__raised__": type(e).__name__}
        if hasattr(type(v), "faces"):
            d["faces"] = [list(map(int, f)) for f in v.faces]
        return d
    if isinstance(v, np.ndarray):
        return {"__array__": v.tolist(), "dtype": str(v.dtype)}
    if isinstance(v, (np.floating, np.integer, np.bool_)):
        return v.item()
    if isinstance(v, dict):
        return {str(k): _j(x) for k, x in v.items()}
    if isinstance(v, (list, tuple)):
        return [_j(x) for x in v]
    if isinstance(v, (str, int, float, bool, type(None))):
        return v
    return {"__repr__": repr(v)[:200]}

ns = {"np": np, "coxeter": coxeter}
out = []
for src in json.loads(sys.stdin.read()):
    try:
        if src.startswith("!"):
            exec(src[1:], ns)
            out.append(None)
        else:
            out.append(_j(eval(src, ns)))
    except Exception as e:
        out.append({"__raised__": type(e).__name__, "msg": str(e)[:200]})
print("\n@@RESULT@@" + json.dumps(out))
"""


def run_fresh(calls, timeout=300):
    """calls: list of source strings; 'expr' is evaluated and reported, '!stmt' is executed (result None).
    Returns the list of JSON-ised results (exceptions as {"__raised__": type})."""
    p = subprocess.run([sys.executable, "-c", _PRELUDE % {"repo": env.REPO}], input=json.dumps(list(calls)), capture_output=True, text=True,
                       timeout=timeout)
    if "@@RESULT@@" not in p.stdout:
        raise env.HarnessError("fresh interpreter failed: " + (p.stderr or p.stdout)[-400:])
    return json.loads(p.stdout.split("@@RESULT@@", 1)[1])
