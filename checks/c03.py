"""C03 - mutable shapes stay coherent under any history of mutations.

Histories are drawn *operation words* (lists of [op, argument] pairs) interpreted against
the real object; after every step the object is compared, observable by observable and in
canonical form, with a freshly constructed shape that has the same current vertices (and
faces, normal, rounding radius).  Short words are enumerated exhaustively.
"""
import copy
import itertools
import random

import numpy as np
from hypothesis import strategies as st

from checks import observe
from checks.common import S, Raised, call, maxnorm
from gen import zoo
from harness.runner import Clause
from oracle import balls

RULE = ("Histories: words over the per-class operation alphabet obtained by reflection (every settable property whose getter "
        "works on the current shape, diagonalize_inertia, merge_faces, sort_faces, to_hoomd, reads of memoised observables, and "
        "failing operations: zero/negative/NaN targets, get_dihedral of non-neighbours) applied to 12 shape kinds. Exhaustive for "
        "words of length <=2 (quick) / <=3 on a reduced alphabet (thorough) from fixed chiral off-origin base shapes; drawn words "
        "of length <=8 (quick) / <=30 (thorough) on generated base shapes. Oracle after every step: all public observables equal "
        "those of type(obj)(current vertices[, faces, normal, radius]) (canonical: face data keyed by vertex set); no mirroring "
        "(orientation of a tracked vertex quadruple); a raising operation leaves every observable unchanged; to_hoomd leaves the "
        "vertices unchanged. Non-trivial: >=2 mutations of different kinds; distinct = distinct word x base shape.")
ASSUMPTIONS = ["equality tolerance rtol=1e-9 scaled by max(|value|, L^dim) (L = largest vertex norm)",
               "'unchanged' after a failed operation / to_hoomd: rtol 1e-12"]
EXHAUSTIVE = False  # set per-run below through evidence 'per_clause'; the enumerated clauses are complete

MULT = [0.5, 2.0, 3.0, 0.25, 1.37, 0.8]
BAD = [0.0, -1.5, float("nan")]
# centre targets are scaled with the shape once it has been shrunk below a tenth of its original size: a shape of
# size 1e-2 parked 4 original sizes from the origin has a centroid conditioned like eps*(L/D)^3 ~ 1e-8, and then a
# moved shape and its fresh twin legitimately differ by more than any useful tolerance
CENTRES = [(0.0, 0.0, 0.0), (3.0, -2.0, 1.0), (-1.0, 4.0, 2.0), (10.0, -7.0, 5.0)]
METHOD_OPS = ["diagonalize_inertia", "merge_faces", "sort_faces", "to_hoomd"]
READ_OPS = ["read:edges", "read:inertia_tensor", "read:get_face_area", "read:is_inside", "read:all"]

KINDS = ["ConvexPolyhedron", "Polyhedron", "PolyhedronTri", "PolyhedronUnflagged", "ConvexSpheropolyhedron", "Polygon", "ConvexPolygon",
         "ConvexSpheropolygon", "Circle", "Ellipse", "Sphere", "Ellipsoid"]

# fixed base geometry: a chiral, off-origin convex solid with a quadrilateral facet
_BASE3 = np.array([[0, 0, 0], [2, 0, 0], [2, 1.5, 0], [0, 1.5, 0], [0.3, 0.2, 1.0], [1.6, 0.4, 1.2], [0.9, 1.3, 0.7]], dtype=float) + [3.0, -1.0, 2.0]
_BASE2 = np.array([[0, 0], [3, 0.1], [3.2, 2], [1.5, 0.8], [0.1, 2.2]], dtype=float) + [1.5, -0.7]
_BASE2C = np.array([[0, 0], [2.5, 0.2], [3.0, 1.6], [1.2, 2.4], [-0.4, 1.1]], dtype=float) + [1.5, -0.7]


def _facets(V):
    from oracle import geom

    return [list(map(int, f)) for f in geom.convex_facets(V)[0]]


def make(kind, V3=None, V2=None, radius=0.4):
    V3 = _BASE3 if V3 is None else V3
    if kind == "ConvexPolyhedron":
        return S.ConvexPolyhedron(V3.copy())
    if kind == "Polyhedron":
        return S.Polyhedron(V3.copy(), [np.array(f) for f in _facets(V3)], True)
    if kind == "PolyhedronUnflagged":
        # faces_are_convex left to its default: with non-triangular faces the faces are not taken as convex, every
        # measure goes through the ear-clipping triangulation, and merge_faces / sort_faces are documented to refuse
        return S.Polyhedron(V3.copy(), [np.array(f) for f in _facets(V3)])
    if kind == "PolyhedronTri":
        tris = [[f[0], f[i], f[i + 1]] for f in _facets(V3) for i in range(1, len(f) - 1)]
        return S.Polyhedron(V3.copy(), [np.array(t) for t in tris])
    if kind == "ConvexSpheropolyhedron":
        return S.ConvexSpheropolyhedron(V3.copy(), radius)
    if kind == "Polygon":
        return S.Polygon((_BASE2 if V2 is None else V2).copy())
    if kind == "ConvexPolygon":
        return S.ConvexPolygon((_BASE2C if V2 is None else V2).copy())
    if kind == "ConvexSpheropolygon":
        return S.ConvexSpheropolygon((_BASE2C if V2 is None else V2).copy(), radius)
    if kind == "Circle":
        return S.Circle(1.3, (0.5, -0.2, 0.0))
    if kind == "Ellipse":
        return S.Ellipse(1.3, 0.6, (0.5, -0.2, 0.0))
    if kind == "Sphere":
        return S.Sphere(1.3, (0.5, -0.2, 0.8))
    return S.Ellipsoid(1.3, 0.6, 2.1, (0.5, -0.2, 0.8))


def _flagged_convex(obj):
    return bool(getattr(obj, "_faces_are_convex", True))


def fresh(obj):
    """A newly constructed shape with the same current defining data."""
    if isinstance(obj, S.ConvexSpheropolyhedron):
        return S.ConvexSpheropolyhedron(np.array(obj.vertices), obj.radius)
    if isinstance(obj, S.ConvexPolyhedron):
        return S.ConvexPolyhedron(np.array(obj.vertices))
    if isinstance(obj, S.Polyhedron):
        return S.Polyhedron(np.array(obj.vertices), [np.array(f) for f in obj.faces], _flagged_convex(obj))
    if isinstance(obj, S.ConvexSpheropolygon):
        return S.ConvexSpheropolygon(np.array(obj.vertices), obj.radius, normal=np.array(obj.normal))
    if isinstance(obj, S.ConvexPolygon):
        return S.ConvexPolygon(np.array(obj.vertices), normal=np.array(obj.normal))
    if isinstance(obj, S.Polygon):
        return S.Polygon(np.array(obj.vertices), normal=np.array(obj.normal))
    if isinstance(obj, S.Circle):
        return S.Circle(obj.radius, np.array(obj.centroid))
    if isinstance(obj, S.Ellipse):
        return S.Ellipse(obj.a, obj.b, np.array(obj.centroid))
    if isinstance(obj, S.Sphere):
        return S.Sphere(obj.radius, np.array(obj.centroid))
    return S.Ellipsoid(obj.a, obj.b, obj.c, np.array(obj.centroid))


def alphabet(kind):
    cls = type(make(kind))
    ops = ["set:" + p for p in observe.settable_properties(cls)]
    ops += ["bad:" + p for p in observe.settable_properties(cls) if p not in ("center", "centroid")]
    ops += ["badcentre:" + p for p in observe.settable_properties(cls) if p in ("center", "centroid")]
    ops += [m for m in METHOD_OPS if hasattr(cls, m)]
    if hasattr(cls, "vertices") and "centroid" in observe.settable_properties(cls):
        ops.append("selfview:centroid")
    ops += READ_OPS
    if kind in ("ConvexSpheropolyhedron", "ConvexSpheropolygon"):
        # the core polytope is publicly reachable (.polyhedron / .polygon) and mutable
        ops += ["sub:centroid", "sub:volume" if kind == "ConvexSpheropolyhedron" else "sub:area"]
        if kind == "ConvexSpheropolyhedron":
            ops.append("sub:diagonalize_inertia")
    if hasattr(cls, "get_dihedral"):
        ops.append("fail:get_dihedral")
    return ops


def _scale_of(obj):
    if hasattr(type(obj), "vertices"):
        return maxnorm(obj.vertices) + (float(obj.radius) if hasattr(obj, "radius") else 0.0)
    ax = [getattr(obj, k) for k in ("a", "b", "c") if hasattr(obj, k)] or [obj.radius]
    return float(np.linalg.norm(obj.centroid)) + max(ax)


def _tracked_quadruple(obj):
    """Indices of a vertex quadruple with a clearly non-zero oriented volume (fixed for the history)."""
    if not isinstance(obj, (S.Polyhedron, S.ConvexSpheropolyhedron)):
        return None
    V = np.asarray(obj.vertices, dtype=float)
    best, bi = 0.0, None
    n = len(V)
    for q in itertools.islice(itertools.combinations(range(n), 4), 400):
        d = abs(np.linalg.det(V[list(q[1:])] - V[q[0]]))
        if d > best:
            best, bi = d, q
    size = 2 * float(np.max(np.linalg.norm(V - V.mean(axis=0), axis=1)))
    return bi if best > 1e-3 * size**3 else None


def _chirality(obj, quad):
    if quad is None:
        return 0
    V = np.asarray(obj.vertices, dtype=float)
    s = np.sign(np.linalg.det(V[list(quad[1:])] - V[quad[0]]))
    return int(s) if np.isfinite(s) else 0


def step(rec, obj, op, arg, sig, state):
    """Apply one operation. Returns (applied, is_mutation)."""
    name = op.split(":", 1)[-1]
    before = None
    verts_before = np.array(obj.vertices) if hasattr(type(obj), "vertices") else None
    params_before = None
    if verts_before is None and op == "to_hoomd":
        params_before = [np.array(obj.centroid, dtype=float)] + [float(getattr(obj, k)) for k in ("radius", "a", "b", "c") if hasattr(obj, k)]

    def unchanged(what):
        after = observe.canonical(observe.observe(obj))
        observe.compare(rec, before, after, _scale_of(obj), observe.is3d(obj), dict(sig, op=op), what + "_", rtol=1e-12)

    if op.startswith("read:"):
        if name == "all":
            observe.observe(obj)
        elif name == "get_face_area":
            if hasattr(obj, "get_face_area"):
                call(obj.get_face_area)
        elif name == "is_inside":
            if hasattr(type(obj), "vertices") and not isinstance(obj, S.ConvexSpheropolygon):
                call(obj.is_inside, observe.probe_points(obj.vertices)[0])
        elif hasattr(type(obj), name):
            call(getattr, obj, name)
        return True, False
    if op.startswith("sub:"):
        core = obj.polyhedron if isinstance(obj, S.ConvexSpheropolyhedron) else obj.polygon
        if name == "centroid":
            target = np.array(CENTRES[arg % len(CENTRES)]) * (0.3 * state["size0"] * min(1.0, 10.0 * state["scale"]))
            if isinstance(obj, S.ConvexSpheropolygon):
                target = target * [1.0, 1.0, 0.0] + [0.0, 0.0, float(np.asarray(core.vertices)[0, 2])]
            r = call(setattr, core, "centroid", target)
        elif name == "diagonalize_inertia":
            r = call(core.diagonalize_inertia)
        else:
            cur = float(getattr(core, name))
            m = MULT[arg % len(MULT)]
            if not (1e-2 < state["scale"] * m < 1e2):
                m = 1.0 / m
            state["scale"] *= m
            r = call(setattr, core, name, cur * m)
        if isinstance(r, Raised):
            rec.fail("valid_op_raised", dict(sig, op=op, type=r.type), msg=r.msg)
        return True, True
    if op == "fail:get_dihedral":
        nb = obj.neighbors
        non = [j for j in range(len(nb)) if j != 0 and j not in set(map(int, nb[0]))]
        if not non:
            return False, False
        before = observe.canonical(observe.observe(obj))
        r = call(obj.get_dihedral, 0, non[0])
        rec.check(isinstance(r, Raised) and r.type == "ValueError", "failing_op_raises_ValueError", dict(sig, op=op), got=repr(r)[:80])
        unchanged("after_failed_op")
        return True, False
    if op.startswith("badcentre:"):
        # a centre target of the wrong shape ((3,1) column, two rows, a 4-vector, a string): whatever the setter makes of
        # it, if it raises the shape must be what it was (no half-applied move)
        bads = [np.array([[0.3], [-0.2], [0.1]]), np.array([[1.0, 2.0, 3.0], [4.0, 5.0, 6.0]]), np.array([1.0, 2.0, 3.0, 4.0]), "origin"]
        val = bads[arg % len(bads)]
        if not isinstance(call(setattr, copy.deepcopy(obj), name, val), Raised):
            # some setters take such a value (a Circle stores any array as its centre); what the shape then is, is not
            # covered by any listed property: tried on a copy only, the history goes on with the untouched object
            rec.label("accepted_odd_centre_target")
            return False, False
        before = observe.canonical(observe.observe(obj))
        r = call(setattr, obj, name, val)
        rec.label("refused_centre_target")
        rec.check(isinstance(r, Raised), "refusal_is_repeatable", dict(sig, op=op))
        unchanged("after_refused_centre_")
        return True, False
    if op.startswith("selfview:"):
        # the target is handed over as a row view of the shape's own vertex array (`s.centroid = s.vertices[k]`):
        # the value meant is the one the row holds at the time of the call
        verts = call(getattr, obj, "vertices")
        if isinstance(verts, Raised) or not isinstance(verts, np.ndarray):
            return False, False
        view = verts[arg % len(verts)]
        target = np.array(view, dtype=float)
        size = _scale_of(obj)
        r = call(setattr, obj, name, view)
        if isinstance(r, Raised):
            rec.fail("valid_op_raised", dict(sig, op=op, type=r.type), msg=r.msg)
            return True, True
        got = call(getattr, obj, name)
        rec.close("centre_read_back", got, target, 1e-9 * (size + np.linalg.norm(target)), dict(sig, op=op))
        return True, True
    if op.startswith("set:") or op.startswith("bad:"):
        cur = call(getattr, obj, name)
        if isinstance(cur, Raised):
            return False, False
        if name in ("center", "centroid"):
            size = _scale_of(obj)
            target = np.array(CENTRES[arg % len(CENTRES)]) * (0.3 * state["size0"] * min(1.0, 10.0 * state["scale"]))
            passed = target.copy()
            r = call(setattr, obj, name, passed)
            if isinstance(r, Raised):
                rec.fail("valid_op_raised", dict(sig, op=op, type=r.type), msg=r.msg)
                return True, True
            # the caller's array stays the caller's: it is unchanged now, and what the caller does with it afterwards
            # is none of the shape's business (a shape that kept it would drift away from its own vertices)
            rec.check(np.array_equal(passed, target), "centre_argument_unchanged", dict(sig, op=op))
            passed += 0.37 * state["size0"]
            got = call(getattr, obj, name)
            rec.close("centre_read_back", got, target, 1e-9 * (size + np.linalg.norm(target)), dict(sig, op=op))
            return True, True
        try:
            cur = float(cur)
        except Exception:
            return False, False
        if not np.isfinite(cur) or (cur <= 0 and name != "radius"):
            return False, False
        if op.startswith("bad:"):
            val = BAD[arg % len(BAD)]
            if name == "radius" and isinstance(obj, (S.ConvexSpheropolygon, S.ConvexSpheropolyhedron)) and val == 0.0:
                val = -0.3  # a zero rounding radius is legal
            before = observe.canonical(observe.observe(obj))
            r = call(setattr, obj, name, val)
            rec.check(isinstance(r, Raised) and r.type == "ValueError", "bad_target_raises_ValueError", dict(sig, op=op, val=str(val)),
                      got=repr(r)[:80])
            unchanged("after_bad_target")
            return True, False
        m = MULT[arg % len(MULT)]
        if name == "radius" and isinstance(obj, (S.ConvexSpheropolygon, S.ConvexSpheropolyhedron)):
            target = [0.0, 0.1, 0.5, 2.0][arg % 4] * state["size0"]
        else:
            if not (1e-2 < state["scale"] * m < 1e2):
                m = 1.0 / m
            target = cur * m
            if name not in ("a", "b", "c"):
                state["scale"] *= m
        mini = name in observe.MINIBALL_DERIVED and hasattr(type(obj), "vertices")
        pre = copy.deepcopy(obj) if mini else None
        r = call(setattr, obj, name, target)
        if isinstance(r, Raised):
            rec.fail("valid_op_raised", dict(sig, op=op, type=r.type), msg=r.msg)
            return True, True
        if mini:
            # judge by the exact smallest enclosing ball, not by miniball's own (sporadically wrong) answer
            rt = balls.min_enclosing_ball(np.asarray(obj.vertices))[1]
            if abs(rt - target) > 1e-5 * target:
                good = 0
                for sd in range(5):
                    o2 = copy.deepcopy(pre)
                    random.seed(777 + sd)
                    call(setattr, o2, name, target)
                    good += abs(balls.min_enclosing_ball(np.asarray(o2.vertices))[1] - target) <= 1e-5 * target
                rec.fail("setter_read_back", dict(sig, op=op, sporadic_miniball=str(good >= 3)), true_radius=rt, target=target)
            return True, True
        got = call(getattr, obj, name)
        # the getter re-measures the shape where it now stands; after a long history it may be small and far from the
        # origin, and centroid-based radii then carry the centroid's conditioning eps*L*(L/D)^3 (DESIGN section 4)
        noise = 0.0
        if hasattr(type(obj), "vertices"):
            Vn = np.asarray(obj.vertices, dtype=float)
            Ln = maxnorm(Vn)
            Dn = 2 * float(np.max(np.linalg.norm(Vn - Vn.mean(axis=0), axis=1))) or 1.0
            noise = 1e3 * 2.0**-52 * Ln * max(Ln / Dn, 1.0) ** 3
            noise = noise * abs(target) / Dn if observe.dimension(name, observe.is3d(obj)) != 1 else noise
        rec.close("setter_read_back", got, target, 1e-9 * abs(target) + noise + 1e-300, dict(sig, op=op))
        return True, True
    # methods
    if not hasattr(obj, op):
        return False, False
    if op in ("merge_faces", "sort_faces") and isinstance(obj, S.ConvexSpheropolyhedron):
        return False, False
    if op in ("merge_faces", "sort_faces") and not _flagged_convex(obj):
        # documented refusal (the ordering of a non-convex face cannot be determined): must raise and change nothing
        before = observe.canonical(observe.observe(obj))
        r = call(getattr(obj, op))
        rec.check(isinstance(r, Raised) and r.type == "ValueError", "failing_op_raises_ValueError", dict(sig, op=op), got=repr(r)[:80])
        unchanged("after_failed_op")
        rec.label("refused:" + op)
        return True, False
    r = call(getattr(obj, op))
    if isinstance(r, Raised):
        rec.fail("valid_op_raised", dict(sig, op=op, type=r.type), msg=r.msg)
        return True, True
    if op == "to_hoomd" and verts_before is not None:
        va = np.asarray(obj.vertices)
        rec.close("to_hoomd_leaves_vertices", va, verts_before, 1e-12 * maxnorm(verts_before), dict(sig, op=op))
    if params_before is not None:
        # an export: where the shape is and how large it is are the same afterwards (C16 says so for every observable)
        after = [np.array(obj.centroid, dtype=float)] + [float(getattr(obj, k)) for k in ("radius", "a", "b", "c") if hasattr(obj, k)]
        rec.close("to_hoomd_leaves_centre", after[0], params_before[0], 1e-12 * (np.linalg.norm(params_before[0]) + max(params_before[1:])), dict(sig, op=op))
        rec.close("to_hoomd_leaves_parameters", after[1:], params_before[1:], 1e-12 * max(params_before[1:]), dict(sig, op=op))
    return True, op != "to_hoomd"


def run_word(rec, kind, word, obj, sig):
    state = {"scale": 1.0, "size0": _scale_of(obj)}
    quad = _tracked_quadruple(obj)
    chir0 = _chirality(obj, quad)
    kinds_applied = set()
    for op, arg in word:
        applied, mut = step(rec, obj, op, arg, sig, state)
        if not applied:
            continue
        if mut:
            kinds_applied.add(op)
        if hasattr(type(obj), "vertices") and not np.all(np.isfinite(np.asarray(obj.vertices, dtype=float))):
            rec.fail("nonfinite_geometry", dict(sig, after=op))
            break
        fr = call(fresh, obj)
        if isinstance(fr, Raised):
            rec.fail("fresh_construction_failed", dict(sig, op=op, type=fr.type), msg=fr.msg)
            return kinds_applied
        a = observe.canonical(observe.observe(obj, isolated=True))
        b = observe.canonical(observe.observe(fr))
        observe.compare(rec, a, b, _scale_of(obj), observe.is3d(obj), dict(sig, after=op), "vs_fresh_", rtol=1e-9,
                        skip=("gsd_shape_spec", "repr", "polygon", "polyhedron"))
        if chir0:
            rec.check(_chirality(obj, quad) == chir0, "not_mirrored", dict(sig, after=op))
        if rec.fails:
            break  # later steps would only repeat the first incoherence
    return kinds_applied


# ------------------------------------------------------------------------- enumerated
def _enum_cases(tier):
    cases = []
    for kind in KINDS:
        ops = alphabet(kind)
        words = [[(o, 0)] for o in ops]
        muts = [o for o in ops if not o.startswith(("read:", "bad:", "fail:", "badcentre:"))]
        if kind == "ConvexSpheropolyhedron":  # populate is_inside-related caches before moving the core, then look again
            words += [[("read:is_inside", 0), (m_, 1), ("read:is_inside", 2)] for m_ in muts]
        for a in ops:
            for b in ops:
                if a.startswith(("read:", "bad:", "fail:", "badcentre:")) and b.startswith(("read:", "bad:", "fail:", "badcentre:")):
                    continue
                words.append([(a, 0), (b, 1)])
        if tier == "thorough":
            core = [o for o in muts if o in ("set:volume", "set:surface_area", "set:area", "set:perimeter", "set:centroid", "set:radius",
                                             "set:circumsphere_radius", "set:minimal_bounding_sphere_radius", "set:a", "diagonalize_inertia",
                                             "merge_faces", "sort_faces", "to_hoomd")] + ["read:edges", "read:all"]
            for w in itertools.product(core, repeat=3):
                words.append([(w[0], 0), (w[1], 1), (w[2], 2)])
        cases += [{"kind": kind, "word": [list(x) for x in w]} for w in words]
    return cases


def _enum(case, rec):
    kind = case["kind"]
    obj = make(kind)
    sig = {"kind": kind}
    word = [tuple(x) for x in case["word"]]
    rec.concrete = {"kind": kind, "word": word}
    ka = run_word(rec, kind, word, obj, sig)
    rec.label("kind:" + kind, "len%d" % len(word), *["op:" + o for o, _ in word if o in METHOD_OPS])
    rec.nontrivial = len(ka) >= 1 and len(word) >= 2


# ---------------------------------------------------------------------------- drawn
@st.composite
def _hist_case(draw, max_len):
    kind = draw(st.sampled_from(KINDS))
    ops = alphabet(kind)
    muts = [o for o in ops if not o.startswith(("read:", "bad:", "fail:", "badcentre:"))]
    reads = [o for o in ops if o.startswith("read:")]
    bads = [o for o in ops if o.startswith(("bad:", "fail:", "badcentre:"))]
    n = draw(st.integers(1, max_len))
    word = []
    for _ in range(n):
        k = draw(st.integers(0, 9))
        pool = muts if k < 6 else (reads if k < 8 else bads)
        word.append([draw(st.sampled_from(pool)), draw(st.integers(0, 5))])
    c = {"kind": kind, "word": word, "radius": draw(zoo.f(0.05, 1.5))}
    if kind in ("ConvexPolyhedron", "Polyhedron", "PolyhedronTri", "PolyhedronUnflagged", "ConvexSpheropolyhedron"):
        c["cvx"] = draw(zoo.convex3d(max_n=10, kinds=("ellipsoid", "lattice", "prismatoid")))
        c["place"] = draw(zoo.placement(max_offset=4.0))
    elif kind in ("Polygon", "ConvexPolygon", "ConvexSpheropolygon"):
        from gen import poly as gp

        c["poly"] = draw(gp.simple_polygon(max_n=9, kinds=("convex",) if kind != "Polygon" else ("star", "comb", "lattice", "untangled")))
        c["off"] = [draw(zoo.f(-4, 4)), draw(zoo.f(-4, 4))]
    return c


def _hist(case, rec):
    kind = case["kind"]
    V3 = V2 = None
    if "cvx" in case:
        V3, _, _, _ = zoo.apply_placement(case["place"], zoo.build_convex(case["cvx"])["verts"])
    if "poly" in case:
        from gen import poly as gp

        V2 = gp.build_polygon_xy(case["poly"]) + np.asarray(case["off"])
    obj = call(make, kind, V3, V2, case["radius"])
    sig = {"kind": kind}
    if isinstance(obj, Raised):
        rec.fail("construct", dict(sig, type=obj.type), msg=obj.msg)
        return
    word = [tuple(x) for x in case["word"]]
    rec.concrete = {"kind": kind, "word": word, "vertices": V3 if V3 is not None else V2}
    ka = run_word(rec, kind, word, obj, sig)
    rec.label("kind:" + kind, *["op:" + o for o in ka if o in METHOD_OPS], "two_kinds" if len(ka) >= 2 else None,
              "has_bad" if any(o.startswith("bad:") for o, _ in word) else None)
    rec.nontrivial = len(ka) >= 2


def clauses():
    return [
        Clause("words_exhaustive", None, _enum, quick=0, thorough=0, enumerate_cases=_enum_cases,
               rule="all words of length <=2 (thorough: plus length 3 over a core alphabet) per shape kind from fixed base shapes",
               floors={"op:diagonalize_inertia": 0.01, "op:merge_faces": 0.01}),
        Clause("histories", _hist_case(8), _hist, quick=500, thorough=4000, rule="drawn words of length <=8 on generated base shapes",
               floors={"two_kinds": 0.25, "op:diagonalize_inertia": 0.006}),
        Clause("long_histories", _hist_case(30), _hist, quick=60, thorough=1500, rule="drawn words of length <=30", floors={}),
    ]
