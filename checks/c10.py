"""C10 - circle, ellipse, sphere and ellipsoid measures equal their defining integrals."""
import numpy as np
from hypothesis import strategies as st

from checks.common import S, Raised, call, get
from gen import curved
from harness.runner import Clause

RULE = ("Generated: radii/semi-axes 10^U(-3,3) in every order with forced ties, near-ties (relative gaps 1e-15..1e-3), "
        "needle and disc limits; centres with pairwise distinct components up to 20 largest-axis lengths, passed as tuple, "
        "list or ndarray. Oracle: mpmath (40 digits): closed forms, complete elliptic integral E, Carlson R_G for the "
        "ellipsoid area, parallel-axis terms with the correct coordinate. Non-trivial: centre with c_x != c_y, or axes not in "
        "sorted order, or a tie/near-tie; distinct = distinct generated case.")
ASSUMPTIONS = ["relative tolerance 1e-11 on closed forms (1e-9 for ellipsoid area in needle/disc limits is NOT used: same 1e-11)",
               "Circle/Ellipse inertia_tensor: only the documented form diag(0,0,polar moment) is asserted"]
REL = 1e-11


def _mp():
    import mpmath

    mpmath.mp.dps = 40
    return mpmath


@st.composite
def _case(draw, k, dim3):
    return {"axes": draw(curved.axes(k)), "centre": draw(curved.centre(dim3=dim3))}


def _rel(rec, obs, got, want, sig, rel=REL, absn=0.0, **kw):
    w = np.asarray(want, dtype=float)
    tol = rel * np.maximum(np.abs(w), absn)
    return rec.close(obs, got, w, tol, sig, **kw)


def _labels(rec, case, ax, c):
    unsorted_ = list(ax) != sorted(ax)
    tie = case["axes"]["mode"] in ("tie_all", "tie_two", "near_tie")
    cxy = c[0] != c[1]
    rec.label("mode:" + case["axes"]["mode"], "centre:" + case["centre"]["kind"], "container:" + case["centre"]["container"], "ptype:" + case["axes"].get("ptype", "py"),
              "cx!=cy" if cxy else None, "unsorted_axes" if unsorted_ else None, "tie" if tie else None)
    rec.nontrivial = bool(cxy or unsorted_ or tie)


def _planar(rec, shape, A, Ix0, Iy0, c, sig, cls):
    """Planar moments about the coordinate axes: Ix = int y^2 gets the c_y^2 term."""
    pm = get(shape, "planar_moments_inertia")
    if isinstance(pm, Raised):
        rec.fail("planar_moments_inertia", dict(sig, type=pm.type), msg=pm.msg)
        return
    cx, cy = float(c[0]), float(c[1])
    wx, wy, wxy = Ix0 + A * cy * cy, Iy0 + A * cx * cx, A * cx * cy
    sx, sy = Ix0 + A * cx * cx, Iy0 + A * cy * cy  # the known swapped parallel-axis variant
    mag = Ix0 + Iy0 + A * (cx * cx + cy * cy)

    def which(got, want, swapped):
        if abs(got - want) <= REL * mag:
            return "ok"
        return "swapped_parallel_axis" if abs(got - swapped) <= REL * mag else "none"

    rec.close("planar_Ix", pm[0], wx, REL * mag, dict(sig, matches=which(pm[0], wx, sx)))
    rec.close("planar_Iy", pm[1], wy, REL * mag, dict(sig, matches=which(pm[1], wy, sy)))
    rec.close("planar_Ixy", pm[2], wxy, REL * mag, sig)
    _rel(rec, "polar_moment_inertia", get(shape, "polar_moment_inertia"), wx + wy, sig)
    it = get(shape, "inertia_tensor")
    want = np.diag([0.0, 0.0, wx + wy])
    rec.close("inertia_tensor_documented_form", it, want, REL * mag, sig)


def _circle(case, rec):
    mp = _mp()
    r = case["axes"]["axes"][0]
    cen = curved.make_centre(case["centre"], r)
    c = np.asarray(cen, dtype=float)
    sig = {"cls": "Circle"}
    sh = call(S.Circle, *curved.typed(case["axes"]), cen)
    if isinstance(sh, Raised):
        rec.fail("construct", dict(sig, type=sh.type), msg=sh.msg)
        return
    rec.concrete = {"radius": r, "centre": c}
    _labels(rec, case, [r], c)
    A = float(mp.pi * mp.mpf(r) ** 2)
    _rel(rec, "area", get(sh, "area"), A, sig)
    _rel(rec, "perimeter", get(sh, "perimeter"), float(2 * mp.pi * mp.mpf(r)), sig)
    _rel(rec, "circumference", get(sh, "circumference"), float(2 * mp.pi * mp.mpf(r)), sig)
    rec.close("eccentricity", get(sh, "eccentricity"), 0.0, 0.0, sig)
    rec.close("iq", get(sh, "iq"), 1.0, 1e-12, sig)
    rec.close("centroid", get(sh, "centroid"), c, 0.0, sig)
    rec.close("radius", get(sh, "radius"), r, 0.0, sig)
    I0 = float(mp.pi * mp.mpf(r) ** 4 / 4)
    _planar(rec, sh, A, I0, I0, c, sig, "Circle")


def _ellipse(case, rec):
    mp = _mp()
    a, b = case["axes"]["axes"]
    cen = curved.make_centre(case["centre"], max(a, b))
    c = np.asarray(cen, dtype=float)
    sig = {"cls": "Ellipse"}
    sh = call(S.Ellipse, *curved.typed(case["axes"]), cen)
    if isinstance(sh, Raised):
        rec.fail("construct", dict(sig, type=sh.type), msg=sh.msg)
        return
    rec.concrete = {"a": a, "b": b, "centre": c}
    _labels(rec, case, [a, b], c)
    ma, mb = mp.mpf(a), mp.mpf(b)
    A = float(mp.pi * ma * mb)
    big, small = max(ma, mb), min(ma, mb)
    e2 = 1 - (small / big) ** 2
    P = 4 * big * mp.ellipe(e2)
    _rel(rec, "area", get(sh, "area"), A, sig)
    _rel(rec, "perimeter", get(sh, "perimeter"), float(P), sig)
    _rel(rec, "circumference", get(sh, "circumference"), float(P), sig)
    # eccentricity = sqrt(1-(b/a)^2) is ill-conditioned near a=b: absolute tolerance on e^2
    ecc = get(sh, "eccentricity")
    if isinstance(ecc, Raised):
        rec.fail("eccentricity", dict(sig, type=ecc.type), msg=ecc.msg)
    else:
        rec.close("eccentricity_sq", float(ecc) ** 2, float(e2), 1e-14 + REL * float(e2), sig)
    iq_exact = 4 * mp.pi * mp.pi * ma * mb / (P * P)
    iq = get(sh, "iq")
    rec.close("iq", iq, float(iq_exact), 1e-11, sig)
    if not isinstance(iq, Raised):
        rec.check(float(iq) <= 1.0 + 1e-12, "iq_at_most_1", sig, iq=float(iq))
        if a == b:
            rec.close("iq_circle_is_1", iq, 1.0, 1e-12, sig)
        elif iq_exact < 1 - mp.mpf("1e-9"):
            rec.check(float(iq) < 1.0, "iq_below_1_for_noncircle", sig, iq=float(iq))
    rec.close("centroid", get(sh, "centroid"), c, 0.0, sig)
    Ix0 = float(mp.pi / 4 * ma * mb ** 3)
    Iy0 = float(mp.pi / 4 * ma ** 3 * mb)
    _planar(rec, sh, A, Ix0, Iy0, c, sig, "Ellipse")


def _tensor(V, diag, c):
    c = np.asarray(c, dtype=float)
    return np.diag(diag) + V * (np.dot(c, c) * np.eye(3) - np.outer(c, c))


def _sphere(case, rec):
    mp = _mp()
    r = case["axes"]["axes"][0]
    cen = curved.make_centre(case["centre"], r)
    c = np.asarray(cen, dtype=float)
    sig = {"cls": "Sphere"}
    sh = call(S.Sphere, *curved.typed(case["axes"]), cen)
    if isinstance(sh, Raised):
        rec.fail("construct", dict(sig, type=sh.type), msg=sh.msg)
        return
    rec.concrete = {"radius": r, "centre": c}
    _labels(rec, case, [r], c)
    V = float(mp.mpf(4) / 3 * mp.pi * mp.mpf(r) ** 3)
    _rel(rec, "volume", get(sh, "volume"), V, sig)
    _rel(rec, "surface_area", get(sh, "surface_area"), float(4 * mp.pi * mp.mpf(r) ** 2), sig)
    rec.close("iq", get(sh, "iq"), 1.0, 1e-12, sig)
    rec.close("diameter", get(sh, "diameter"), 2 * r, 0.0, sig)
    rec.close("centroid", get(sh, "centroid"), c, 0.0, sig)
    i0 = 0.4 * V * r * r
    want = _tensor(V, [i0] * 3, c)
    rec.close("inertia_tensor", get(sh, "inertia_tensor"), want, REL * (i0 + V * np.dot(c, c)), sig)


def _ellipsoid(case, rec):
    mp = _mp()
    a, b, cc = case["axes"]["axes"]
    cen = curved.make_centre(case["centre"], max(a, b, cc))
    c = np.asarray(cen, dtype=float)
    sig = {"cls": "Ellipsoid"}
    sh = call(S.Ellipsoid, *curved.typed(case["axes"]), cen)
    if isinstance(sh, Raised):
        rec.fail("construct", dict(sig, type=sh.type), msg=sh.msg)
        return
    rec.concrete = {"a": a, "b": b, "c": cc, "centre": c}
    _labels(rec, case, [a, b, cc], c)
    ma, mb, mc = mp.mpf(a), mp.mpf(b), mp.mpf(cc)
    Vm = mp.mpf(4) / 3 * mp.pi * ma * mb * mc
    Sm = 4 * mp.pi * mp.elliprg((ma * mb) ** 2, (ma * mc) ** 2, (mb * mc) ** 2)
    V = float(Vm)
    _rel(rec, "volume", get(sh, "volume"), V, sig)
    _rel(rec, "surface_area", get(sh, "surface_area"), float(Sm), dict(sig, mode=case["axes"]["mode"]))
    iq_exact = 36 * mp.pi * Vm ** 2 / Sm ** 3
    iq = get(sh, "iq")
    rec.close("iq", iq, float(iq_exact), 1e-11, sig)
    if not isinstance(iq, Raised):
        rec.check(float(iq) <= 1.0 + 1e-12, "iq_at_most_1", sig, iq=float(iq))
        if a == b == cc:
            rec.close("iq_sphere_is_1", iq, 1.0, 1e-12, sig)
        elif iq_exact < 1 - mp.mpf("1e-9"):
            rec.check(float(iq) < 1.0, "iq_below_1_for_nonsphere", sig, iq=float(iq))
    rec.close("centroid", get(sh, "centroid"), c, 0.0, sig)
    d = [V / 5 * (b * b + cc * cc), V / 5 * (a * a + cc * cc), V / 5 * (a * a + b * b)]
    want = _tensor(V, d, c)
    rec.close("inertia_tensor", get(sh, "inertia_tensor"), want, REL * (max(d) + V * np.dot(c, c)), sig)


def clauses():
    fl = {"cx!=cy": 0.5, "tie": 0.15}
    return [
        Clause("circle", _case(1, False), _circle, quick=4800, thorough=15000, rule="Circle", floors={"cx!=cy": 0.5}),
        Clause("ellipse", _case(2, False), _ellipse, quick=6400, thorough=20000, rule="Ellipse", floors=dict(fl, unsorted_axes=0.2)),
        Clause("sphere", _case(1, True), _sphere, quick=4800, thorough=15000, rule="Sphere", floors={"cx!=cy": 0.5}),
        Clause("ellipsoid", _case(3, True), _ellipsoid, quick=6400, thorough=20000, rule="Ellipsoid", floors=dict(fl, unsorted_axes=0.3)),
    ]


def selftest():
    """Validate the oracle's closed forms against numerical quadrature of the defining integrals."""
    mp = _mp()
    a, b, c = mp.mpf("1.3"), mp.mpf("0.7"), mp.mpf("2.1")
    per = 4 * mp.quad(lambda t: mp.sqrt((a * mp.sin(t)) ** 2 + (b * mp.cos(t)) ** 2), [0, mp.pi / 2])
    assert abs(per - 4 * a * mp.ellipe(1 - (b / a) ** 2)) < mp.mpf("1e-25")

    def dS(th, ph):
        return mp.sin(th) * mp.sqrt((b * c * mp.sin(th) * mp.cos(ph)) ** 2 + (a * c * mp.sin(th) * mp.sin(ph)) ** 2
                                    + (a * b * mp.cos(th)) ** 2)

    mp.mp.dps = 20
    area = 8 * mp.quad(dS, [0, mp.pi / 2], [0, mp.pi / 2])
    cl = 4 * mp.pi * mp.elliprg((a * b) ** 2, (a * c) ** 2, (b * c) ** 2)
    assert abs(area - cl) < mp.mpf("1e-12"), (area, cl)
    # planar moment of an off-centre ellipse: int y^2 over ((x-cx)/a)^2+((y-cy)/b)^2<=1
    cx, cy = mp.mpf("0.4"), mp.mpf("-1.1")
    iy2 = mp.quad(lambda y: y * y * 2 * a * mp.sqrt(max(0, 1 - ((y - cy) / b) ** 2)), [cy - b, cy + b])
    assert abs(iy2 - (mp.pi / 4 * a * b ** 3 + mp.pi * a * b * cy ** 2)) < mp.mpf("1e-10")
    mp.mp.dps = 40
