"""C13 - bounding, bounded, circum- and in-spheres/circles satisfy their definitions."""
import copy
import math
import random

import numpy as np
from hypothesis import strategies as st

from checks.common import S, Raised, call, get, maxnorm
from gen import curved, zoo
from gen import poly as gp
from gen.zoo import f, noise, unit
from harness.runner import Clause
from oracle import balls, geom

RULE = ("Generated: convex polygons and polyhedra that are tangential, cyclic, both or neither by construction (tangent polytopes of "
        "a ball via polar duals, points on a sphere/circle, rectangles, kites, boxes, prisms, pyramids, tabulated solids, random "
        "hulls), non-convex polygons and meshes for the vertex-based balls, curved shapes; rigid placement; scales 1, 1e-3, 1e3, 1e-6, 1e6, 1e-8. "
        "Oracle (validity predicates): exact smallest enclosing ball by brute force over support sets; centred balls from the exact "
        "centroid and facet/edge distances; circum-ball: all vertex distances equal; in-ball: distance to every facet plane/edge line "
        "equal and centre inside; existence ground truth from a harness least-squares fit: must return a ball when the fit misses by "
        "< 1e-10 relative, must raise RuntimeError when it misses by >= 1e-2. Non-trivial: non-existence cases, quadrilaterals / "
        "5-face solids, non-convex inputs, scales != 1.")
ASSUMPTIONS = ["circum-/in-ball existence is only asserted for relative misfit < 1e-10 (exists) or >= 1e-2 (does not exist)",
               "minimal bounding ball compared with relative tolerance 1e-5 (miniball iterates to ~1e-7)",
               "circum-/in-ball equidistance and tangency: 1e-6 of the size (the least-squares systems mix unit normals with coordinates, so at a length scale of 1e-8 they lose about half the digits)"]


# --------------------------------------------------------------------------- generators
@st.composite
def _poly2_case(draw):
    kind = draw(st.sampled_from(["tangential", "cyclic", "regular", "rectangle", "kite", "triangle", "convex", "nonconvex"]))
    n = draw(st.integers(3, 14))
    return {"kind": kind, "n": n, "noise": draw(noise(2 * n + 4)), "emb": draw(gp.embedding()), "poly": draw(gp.simple_polygon(max_n=12, kinds=("star", "comb", "untangled"))),
            "logs": draw(st.sampled_from([0.0, 0.0, 0.0, -3.0, 3.0, -6.0, 6.0, -8.0])),
            "far": draw(st.sampled_from([None, None, None, 3.0, 3.5, 4.0]))}


def build_poly2(case):
    k, n = case["kind"], case["n"]
    u = unit(case["noise"])
    if k == "nonconvex":
        return gp.build_polygon_xy(case["poly"])
    if k == "triangle":
        n = 3
        k = "cyclic"
    if k == "regular":
        th = 2 * np.pi * np.arange(n) / n
        return np.stack([np.cos(th), np.sin(th)], axis=1)
    if k == "cyclic":
        th = 2 * np.pi * (np.arange(n) + 0.1 + 0.8 * u[:n]) / n
        return 1.3 * np.stack([np.cos(th), np.sin(th)], axis=1)
    if k == "tangential":
        n = max(n, 3)
        th = 2 * np.pi * (np.arange(n) + 0.2 + 0.6 * u[:n]) / n  # tangent directions, gaps < pi
        # vertex i = intersection of tangent lines i and i+1 of the unit circle
        a, b = th, np.roll(th, -1)
        h = np.mod(b - a, 2 * np.pi) / 2
        m = a + h
        return 0.8 * np.stack([np.cos(m), np.sin(m)], axis=1) / np.cos(h)[:, None]
    if k == "rectangle":
        w, h = 0.5 + 2 * u[0], 0.5 + 2 * u[1]
        return np.array([[0, 0], [w, 0], [w, h], [0, h]], dtype=float)
    if k == "kite":
        a, b, c = 0.5 + u[0], 0.5 + 2 * u[1], 0.4 + u[2]
        return np.array([[0, -b], [a, 0], [0, c], [-a, 0]], dtype=float)
    return zoo.convex_polygon_xy(n, False, case["noise"])


@st.composite
def _poly3_case(draw):
    kind = draw(st.sampled_from(["tangential", "cyclic", "tabulated", "box", "prismatoid", "random", "mesh"]))
    n = draw(st.integers(4, 14))
    return {"kind": kind, "n": n, "noise": draw(noise(2 * n)), "cvx": draw(zoo.convex3d(max_n=14, kinds=("prismatoid", "ellipsoid", "lattice"))),
            "tab": draw(zoo.convex3d(kinds=("tabulated",))), "mesh": draw(zoo.mesh3d(max_n=10, kinds=("voxel", "star"))),
            "place": draw(zoo.placement(max_offset=3.0)), "logs": draw(st.sampled_from([0.0, 0.0, 0.0, -3.0, 3.0, -6.0, 6.0, -8.0]))}


def sphere_points(n, nz):
    return zoo.build_convex({"kind": "ellipsoid", "n": n, "noise": nz[:2 * n], "axes": [0.0, 0.0, 0.0]})["verts"]


def build_poly3(case):
    """-> (V, faces or None (convex: use hull))"""
    k = case["kind"]
    if k == "cyclic":
        return 1.2 * sphere_points(case["n"], case["noise"]), None
    if k == "tangential":
        U = sphere_points(max(case["n"], 4), case["noise"])
        facets, nrm, off, _ = geom.convex_facets(U)
        if np.any(off <= 1e-6):
            return U, None  # origin not inside: fall back to the cyclic polytope
        return 0.9 * nrm / off[:, None], None  # polar dual: tangent polytope of the sphere of radius 0.9... vertices n_f/off_f
    if k == "tabulated":
        return zoo.build_convex(case["tab"])["verts"], None
    if k == "box":
        a, b, c = 0.5 + 2 * unit(case["noise"][:3])
        return np.array([[x, y, z] for x in (0, a) for y in (0, b) for z in (0, c)], dtype=float), None
    if k in ("prismatoid", "random"):
        return zoo.build_convex(case["cvx"])["verts"], None
    m = zoo.build_mesh(case["mesh"])
    return m["verts"], [list(map(int, f_)) for f_ in m["faces"]]


# ------------------------------------------------------------------------------ oracles
def fit_circumball(P):
    """Least-squares centre equidistant from all points, restricted to their affine hull (so that a
    planar point set is fitted by a circle in its plane); returns (centre, radius, relative misfit)."""
    P = np.asarray(P, dtype=float)
    c0 = P.mean(axis=0)
    Q = P - c0
    s = np.max(np.linalg.norm(Q, axis=1))
    Q = Q / s
    _, sv, vt = np.linalg.svd(Q, full_matrices=False)
    B = vt[sv > 1e-9 * sv[0]]  # orthonormal basis of the affine hull
    Y = Q @ B.T
    A = np.c_[2 * Y, np.ones(len(Y))]
    b = np.einsum("ij,ij->i", Y, Y)
    x, *_ = np.linalg.lstsq(A, b, rcond=None)
    cy = x[:-1]
    d = np.linalg.norm(Y - cy, axis=1)
    r = d.mean()
    return (cy @ B) * s + c0, r * s, float((d.max() - d.min()) / r)


def fit_inball(nrm, off):
    """Least squares for n_i.c + r = off_i; returns (centre, radius, relative misfit)."""
    A = np.c_[nrm, np.ones(len(nrm))]
    x, *_ = np.linalg.lstsq(A, off, rcond=None)
    c, r = x[:-1], x[-1]
    d = off - nrm @ c
    return c, float(r), float((d.max() - d.min()) / abs(r)) if r != 0 else np.inf


def _ball(rec, obj, name, sig):
    b = get(obj, name)
    if isinstance(b, Raised):
        return b
    ok = isinstance(b, (S.Sphere, S.Circle))
    rec.check(ok, "returns_a_ball", dict(sig, prop=name), got=repr(b)[:80])
    if ok:
        rname = name + "_radius"
        if hasattr(type(obj), rname):
            r = get(obj, rname)
            if not isinstance(r, Raised):
                if name in ("minimal_bounding_sphere", "minimal_bounding_circle") and hasattr(type(obj), "vertices"):
                    pass  # two independent randomised miniball calls: each is judged against the exact oracle in _min_ball
                else:
                    rec.close("radius_getter_agrees", r, b.radius, 1e-12 * abs(b.radius), dict(sig, prop=name))
    return b if ok else Raised(ValueError("not a ball"))


def _min_ball(rec, obj, name, V, sig):
    """Minimal bounding ball against the exact oracle; sporadic miniball errors are classified."""
    c, R = balls.min_enclosing_ball(V)
    b = _ball(rec, obj, name, sig)
    if isinstance(b, Raised):
        if b.type != "NotImplementedError":
            rec.fail("minimal_bounding_ball", dict(sig, type=b.type), msg=b.msg)
        return

    def verdict(bb):
        cc = np.asarray(bb.centroid, dtype=float)
        contains = np.all(np.linalg.norm(V - cc, axis=1) <= bb.radius * (1 + 1e-5))
        return ("too_small" if not contains else ("too_large" if bb.radius > R * (1 + 1e-5) else "ok"))

    v = verdict(b)
    rg = get(obj, name + "_radius")
    if v == "ok" and not isinstance(rg, Raised) and abs(float(rg) - R) > 1e-5 * R:
        v = "too_large" if float(rg) > R else "too_small"
    if v != "ok":
        good = 0
        for sd in range(5):
            random.seed(4242 + sd)
            b2 = get(obj, name)
            good += (not isinstance(b2, Raised)) and verdict(b2) == "ok"
        rec.fail("minimal_bounding_ball", dict(sig, verdict=v, sporadic_miniball=str(good >= 3)), radius=float(b.radius), exact=R)
    else:
        rec.close("minimal_bounding_centre", b.centroid, c, 2e-3 * R + 1e-5 * maxnorm(V), sig)
        rec.asserts += 1


def _existence(rec, obj, name, misfit, validate, sig):
    """Circum-/in-ball: must exist when misfit<1e-10, must raise RuntimeError when misfit>=1e-2."""
    b = get(obj, name)
    zone = "exists" if misfit < 1e-10 else ("absent" if misfit >= 1e-2 else "undecided")
    rec.label(name + ":" + zone)
    s2 = dict(sig, prop=name, truth=zone)
    if isinstance(b, Raised):
        if b.type == "NotImplementedError":
            return
        rec.check(b.type == "RuntimeError", "nonexistence_raises_RuntimeError", s2, got=repr(b)[:100])
        rec.check(zone != "exists", "ball_found_when_it_exists", s2, misfit=misfit, error=b.msg)
        return
    if zone == "absent":
        rec.fail("raises_when_no_ball_exists", s2, misfit=misfit, got=repr(b)[:100])
        return
    if zone == "exists":
        validate(b, s2)


def _polygon(case, rec):
    xy = build_poly2(case)
    em = gp.embed(xy, dict(case["emb"], cw=False, reflex_first=False))
    logs = case["logs"]
    if logs > 5.0 and case["emb"]["place"] is not None:
        # tilted plane: beyond ~1e6 the rounded coordinates fail Polygon's documented planarity test
        # (|n.v - d| <= 1e-8 + planar_tolerance*|d|) for rounding alone - same stated limit as in C04/C15
        logs = 5.0
    scale = 10.0 ** logs
    V = em["verts"] * scale
    if case.get("far") and logs == 0.0:
        # the same polygon 1e3..1e4 of its sizes away, moved within its own plane: whether a circum-/in-circle exists is
        # a property of the figure (tolerances tied to the distance from the origin would get it wrong)
        u_, v_, _ = geom.plane_frame(em["nplus"])
        V = V + 10.0 ** case["far"] * 2 * float(np.max(np.linalg.norm(V - V.mean(axis=0), axis=1))) * (0.6 * u_ - 0.8 * v_)
        rec.label("far:1e%g" % case["far"])
    arg = em["normal_arg"]
    kind = case["kind"]
    convex = kind != "nonconvex"
    cls = S.ConvexPolygon if (convex and case["n"] % 2) else S.Polygon
    kw = {} if arg is None else {"normal": arg.copy() if isinstance(arg, np.ndarray) else arg}
    obj = call(cls, V.copy(), **kw)
    sig = {"cls": cls.__name__, "scale": "1" if scale == 1 else ("small" if scale < 1 else "large")}
    if isinstance(obj, Raised):
        rec.fail("construct", dict(sig, type=obj.type), msg=obj.msg)
        return
    V = np.asarray(obj.vertices, dtype=float)
    nrm = np.asarray(obj.normal, dtype=float)
    o = geom.polygon_moments(V, nrm)
    cen = o["centroid"]
    size = 2 * float(np.max(np.linalg.norm(V - V.mean(axis=0), axis=1)))
    rec.concrete = {"vertices": V, "kind": kind}
    rec.label("kind:" + kind, sig["cls"], "scale:" + sig["scale"], "quadrilateral" if len(V) == 4 else None)
    rec.nontrivial = kind in ("rectangle", "kite", "convex", "nonconvex") or len(V) == 4 or scale != 1
    _min_ball(rec, obj, "minimal_bounding_circle", V, sig)
    d = np.linalg.norm(V - cen, axis=1)
    # the centred circles sit on the class's centroid, an origin-based integral conditioned like eps*L*(L/D)^2 (C04):
    # far from the origin that term dominates (and makes these four comparisons vacuous beyond ~1e3 sizes)
    tol_c = 1e-9 * (size + maxnorm(V)) + 1e3 * 2.0**-52 * maxnorm(V) * max(1.0, maxnorm(V) / size) ** 2
    if cls is S.ConvexPolygon:
        b = _ball(rec, obj, "minimal_centered_bounding_circle", sig)
        if not isinstance(b, Raised):
            rec.close("centred_bounding_centre", b.centroid, cen, tol_c, sig)
            rec.close("centred_bounding_radius", b.radius, d.max(), tol_c, sig)
        b = _ball(rec, obj, "maximal_centered_bounded_circle", sig)
        if not isinstance(b, Raised):
            P2 = np.roll(V, -1, axis=0)
            e = P2 - V
            dist = np.linalg.norm(np.cross(cen - V, e), axis=1) / np.linalg.norm(e, axis=1)
            rec.close("centred_bounded_centre", b.centroid, cen, tol_c, sig)
            rec.close("centred_bounded_radius", b.radius, dist.min(), tol_c, sig)
    # circumcircle
    cc, rr, mis = fit_circumball(V)

    def v_circ(b, s2):
        dd = np.linalg.norm(V - np.asarray(b.centroid, dtype=float), axis=1)
        rec.close("circumball_through_every_vertex", dd, np.full_like(dd, b.radius), 1e-6 * size, s2)
        rec.close("circumball_in_plane", np.dot(np.asarray(b.centroid) - V[0], nrm), 0.0, 1e-6 * size, s2)

    _existence(rec, obj, "circumcircle", mis, v_circ, sig)
    # incircle (tangent to every edge line from inside) - convex polygons only
    if convex:
        P2 = np.roll(V, -1, axis=0)
        e = P2 - V
        sgn = 1.0 if o["signed_area"] > 0 else -1.0
        en = sgn * np.cross(e, nrm)
        en /= np.linalg.norm(en, axis=1)[:, None]  # outward edge normals in the plane
        u, v, _ = geom.plane_frame(nrm)
        n2 = np.stack([en @ u, en @ v], axis=1)
        off2 = np.einsum("ij,ij->i", en, V)
        c2, r2, mis_in = fit_inball(n2, off2 - en @ (np.dot(V[0], nrm) * nrm))
        if len(V) == 3:
            mis_in = 0.0

        def v_in(b, s2):
            c = np.asarray(b.centroid, dtype=float)
            dd = off2 - en @ c
            rec.close("inball_tangent_to_every_edge", dd, np.full_like(dd, b.radius), 1e-6 * size, s2)
            rec.check(np.all(dd > 0) and b.radius > 0, "inball_centre_inside", s2)

        _existence(rec, obj, "incircle", mis_in, v_in, sig)


def _polyhedron(case, rec):
    V0, F = build_poly3(case)
    V, R, t, s = zoo.apply_placement(case["place"], V0)
    scale = 10.0 ** case["logs"]
    V = V * scale
    kind = case["kind"]
    sig = {"cls": "Polyhedron" if F is not None else "ConvexPolyhedron", "scale": "1" if scale == 1 else ("small" if scale < 1 else "large")}
    if len(V) > 30:
        return
    obj = call(S.Polyhedron, V.copy(), [np.array(f_) for f_ in F], True) if F is not None else call(S.ConvexPolyhedron, V.copy())
    if isinstance(obj, Raised):
        rec.fail("construct", dict(sig, type=obj.type), msg=obj.msg)
        return
    size = 2 * float(np.max(np.linalg.norm(V - V.mean(axis=0), axis=1)))
    L = size + maxnorm(V)
    rec.concrete = {"vertices": V, "kind": kind}
    _min_ball(rec, obj, "minimal_bounding_sphere", V, sig)
    if F is None:
        facets, nrm, off, _ = geom.convex_facets(V)
        m = geom.mesh_moments(V, facets)
        cen = m["centroid"]
        d = np.linalg.norm(V - cen, axis=1)
        b = _ball(rec, obj, "minimal_centered_bounding_sphere", sig)
        if not isinstance(b, Raised):
            rec.close("centred_bounding_centre", b.centroid, cen, 1e-8 * L, sig)
            rec.close("centred_bounding_radius", b.radius, d.max(), 1e-8 * L, sig)
        b = _ball(rec, obj, "maximal_centered_bounded_sphere", sig)
        if not isinstance(b, Raised):
            rec.close("centred_bounded_centre", b.centroid, cen, 1e-8 * L, sig)
            rec.close("centred_bounded_radius", b.radius, (off - nrm @ cen).min(), 1e-8 * L, sig)
        nf = len(facets)
        c_in, r_in, mis_in = fit_inball(nrm, off - nrm @ V.mean(axis=0))
        if len(V) <= 4:
            mis_in = 0.0

        def v_in(b, s2):
            c = np.asarray(b.centroid, dtype=float)
            dd = off - nrm @ c
            rec.close("inball_tangent_to_every_face", dd, np.full_like(dd, b.radius), 1e-6 * size, s2)
            rec.check(np.all(dd > 0) and b.radius > 0, "inball_centre_inside", s2)

        _existence(rec, obj, "insphere", mis_in, v_in, sig)
        rec.label("five_faces" if nf == 5 else None)
    cc, rr, mis = fit_circumball(V)
    if len(V) <= 4:
        mis = 0.0

    def v_circ(b, s2):
        dd = np.linalg.norm(V - np.asarray(b.centroid, dtype=float), axis=1)
        rec.close("circumball_through_every_vertex", dd, np.full_like(dd, b.radius), 1e-6 * size, s2)

    _existence(rec, obj, "circumsphere", mis, v_circ, sig)
    rec.label("kind:" + kind, sig["cls"], "scale:" + sig["scale"])
    rec.nontrivial = kind in ("box", "prismatoid", "random", "mesh") or scale != 1


@st.composite
def _curved_case(draw):
    cls = draw(st.sampled_from(["Circle", "Ellipse", "Sphere", "Ellipsoid"]))
    k = {"Circle": 1, "Sphere": 1, "Ellipse": 2, "Ellipsoid": 3}[cls]
    return {"cls": cls, "axes": draw(curved.axes(k)), "centre": draw(curved.centre(dim3=cls in ("Sphere", "Ellipsoid")))}


def _curved(case, rec):
    cls = case["cls"]
    ax = case["axes"]["axes"]
    cen = curved.make_centre(case["centre"], max(ax))
    obj = call(getattr(S, cls), *ax, cen)
    sig = {"cls": cls}
    if isinstance(obj, Raised):
        rec.fail("construct", dict(sig, type=obj.type), msg=obj.msg)
        return
    c = np.asarray(cen, dtype=float)
    suffix = "sphere" if cls in ("Sphere", "Ellipsoid") else "circle"
    rec.concrete = {"cls": cls, "axes": ax, "centre": c}
    rec.label(cls, "mode:" + case["axes"]["mode"])
    rec.nontrivial = len(set(ax)) > 1 or cls in ("Circle", "Sphere")
    for name, want in (("minimal_bounding_", max(ax)), ("minimal_centered_bounding_", max(ax)), ("maximal_bounded_", min(ax)),
                       ("maximal_centered_bounded_", min(ax))):
        b = _ball(rec, obj, name + suffix, sig)
        s2 = dict(sig, prop=name + suffix)
        if isinstance(b, Raised):
            rec.fail("curved_ball_available", dict(s2, type=b.type), msg=b.msg)
            continue
        rec.check(type(b).__name__ == ("Sphere" if suffix == "sphere" else "Circle"), "ball_class", s2)
        rec.close("curved_ball_radius", b.radius, want, 0.0, s2)
        rec.close("curved_ball_centre", b.centroid, c, 0.0, s2)


def clauses():
    return [
        Clause("polygons", _poly2_case(), _polygon, quick=3200, thorough=20000, rule="Polygon / ConvexPolygon",
               floors={"incircle:absent": 0.1, "circumcircle:absent": 0.15, "incircle:exists": 0.1, "circumcircle:exists": 0.15, "quadrilateral": 0.08}),
        Clause("polyhedra", _poly3_case(), _polyhedron, quick=2000, thorough=12000, rule="Polyhedron / ConvexPolyhedron",
               floors={"insphere:absent": 0.1, "circumsphere:absent": 0.15, "insphere:exists": 0.05, "circumsphere:exists": 0.1}),
        Clause("curved", _curved_case(), _curved, quick=2400, thorough=10000, rule="Circle/Ellipse/Sphere/Ellipsoid", floors={}),
    ]


def selftest():
    balls.self_test()
    geom.self_test()
    sq = np.array([[0, 0, 0], [2, 0, 0], [2, 1, 0], [0, 1, 0]], dtype=float)
    c, r, mis = fit_circumball(sq)
    assert mis < 1e-12 and abs(r - math.sqrt(5) / 2) < 1e-12
    kite = np.array([[0, -0.4961, 0.3], [0.5, 0, 0.3], [0, 0.4004, 0.3], [-0.5, 0, 0.3]])
    assert fit_circumball(kite)[2] > 1e-2  # a planar non-cyclic quadrilateral has no circumcircle (and no circumsphere)
    n2 = np.array([[0, -1], [1, 0], [0, 1], [-1, 0]], dtype=float)
    off = np.array([0, 2, 1, 0], dtype=float)
    _, _, m2 = fit_inball(n2, off)
    assert m2 > 0.5  # a 2x1 rectangle has no incircle
