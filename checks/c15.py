"""C15 - constructors accept valid geometry and reject invalid geometry; never store or
modify the caller's arrays."""
import math

import numpy as np
from hypothesis import strategies as st

from checks import observe
from checks.common import S, Raised, as_layout, call, face_key, get, maxnorm, perm_from_noise, polygon_is_convex_ccw
from gen import curved, zoo
from gen import poly as gp
from gen.zoo import f, noise, unit
from harness.runner import Clause
from oracle import geom

RULE = ("Generated: valid and invalid constructor inputs with margins for all ten classes: simple polygons (all zoo kinds, both "
        "orientations, any plane, scales 10^U(-3,3), or moved 1e3..1e7 sizes from the origin within their plane) vs cycles with a proper crossing (crossing parameters in (0.05,0.95)), an "
        "off-plane vertex (>= 1% of the size), duplicate vertices at adjacent and non-adjacent positions, < 3 vertices; integer "
        "polygons classified exactly; convex position (any permutation) vs an extra point deeper than 1e-3*size inside the hull; "
        "non-positive/NaN radii and axes, negative rounding radii; argument containers list/tuple/float ndarray/int ndarray. "
        "Oracle: exact/margin classification -> must construct or must raise ValueError (any other exception is a violation); on "
        "success the class invariant (stored vertices = input, ConvexPolygon counter-clockwise about its normal starting at the first "
        "input vertex, hull facets) holds; caller arrays bit-identical afterwards and not aliased (editing them later changes no "
        "observable). Non-trivial: invalid inputs, non-convex valid polygons, integer inputs sharing coordinates, ndarray arguments.")
ASSUMPTIONS = ["points on the boundary of the decision (interior point on a facet, nearly crossing edges) are not generated"]


def _contain(V, kind):
    if kind == "list":
        return [[float(x) for x in v] for v in V]
    if kind == "tuple":
        return tuple(tuple(float(x) for x in v) for v in V)
    # an ndarray in one of four memory layouts (contiguous, strided window of a wider array, Fortran order, reversed
    # strides), picked from the data so that the same case always gets the same one
    A = np.array(V, dtype=float)
    return as_layout(A, int(abs(float(A.sum())) * 1e6) if A.size and np.isfinite(A.sum()) else 0)


def _same(a, b):
    a, b = np.asarray(a), np.asarray(b)
    return a.shape == b.shape and a.dtype == b.dtype and np.array_equal(a, b, equal_nan=True)


def _alias_check(rec, shape, arrays, sig, L):
    """Mutate the caller's ndarray arguments after construction: no observable may change."""
    nd = [a for a in arrays if isinstance(a, np.ndarray)]
    if not nd:
        return
    before = observe.canonical(observe.observe(shape))
    for a in nd:
        if a.dtype.kind == "f":
            a *= 1.75
            a += 0.3
        else:
            a[...] = a[::-1].copy() if a.ndim == 1 and len(a) > 2 else a
    after = observe.canonical(observe.observe(shape))
    observe.compare(rec, before, after, L, observe.is3d(shape), sig, "aliased_argument_", rtol=1e-13)
    rec.label("alias_checked")


def _twin_check(rec, make, sig, L):
    """Two instances built from equal (separately held) arguments are independent objects: moving and resizing one
    through its public setters changes no observable of the other (no state shared through class attributes,
    default arguments or memoised constructor helpers)."""
    a, b = call(make), call(make)
    if isinstance(a, Raised) or isinstance(b, Raised):
        return
    before = observe.canonical(observe.observe(b))
    cls = type(a)
    done = []
    for name, val in (("centroid", None), ("center", None), ("volume", 3.7), ("area", 3.7), ("radius", 1.9), ("a", 1.9)):
        if name not in observe.settable_properties(cls):
            continue
        cur = call(getattr, a, name)
        if isinstance(cur, Raised):
            continue
        if val is None:
            target = np.asarray(cur, dtype=float) + np.array([0.7, -0.4, 0.0 if not observe.is3d(a) else 0.9]) * L
        else:
            try:
                target = float(cur) * val if float(cur) > 0 else 0.37 * L
            except Exception:
                continue
        if not isinstance(call(setattr, a, name, target), Raised):
            done.append(name)
    if not done:
        return
    after = observe.canonical(observe.observe(b))
    observe.compare(rec, before, after, L, observe.is3d(b), dict(sig, twin="other_instance_changed"), "twin_", rtol=1e-13)
    rec.label("twin_checked")


# ------------------------------------------------------------------------- polygons
@st.composite
def _polygon_case(draw):
    mode = draw(st.sampled_from(["valid", "valid", "crossing", "offplane", "duplicate", "too_few", "lattice"]))
    return {"mode": mode, "poly": draw(gp.simple_polygon(max_n=16)), "emb": draw(gp.embedding()), "i": draw(st.integers(0, 50)),
            "j": draw(st.integers(0, 50)), "container": draw(st.sampled_from(["list", "tuple", "ndarray", "ndarray"])),
            "logs": draw(f(-3, 3)) if draw(st.booleans()) else 0.0, "lat": draw(st.lists(st.tuples(st.integers(0, 5), st.integers(0, 5)), min_size=3, max_size=8)),
            "intarray": draw(st.booleans()), "far": draw(st.sampled_from([None, None, None, 3.0, 5.0, 6.0, 7.0]))}


def _proper_crossing(P):
    """Does some pair of non-adjacent edges cross with parameters in (0.05, 0.95) and |sin| > 0.05?"""
    n = len(P)
    for i in range(n):
        a, b = P[i], P[(i + 1) % n]
        for j in range(i + 2, n):
            if i == 0 and j == n - 1:
                continue
            c, d = P[j], P[(j + 1) % n]
            r, s = b - a, d - c
            den = r[0] * s[1] - r[1] * s[0]
            if abs(den) <= 0.05 * np.linalg.norm(r) * np.linalg.norm(s):
                continue
            t = ((c[0] - a[0]) * s[1] - (c[1] - a[1]) * s[0]) / den
            u = ((c[0] - a[0]) * r[1] - (c[1] - a[1]) * r[0]) / den
            if 0.05 < t < 0.95 and 0.05 < u < 0.95:
                return True
    return False


def _polygon(case, rec):
    mode = case["mode"]
    sig = {"cls": "Polygon", "mode": mode}
    if mode == "lattice":
        pts = []
        for p in case["lat"]:
            if list(p) not in pts:
                pts.append(list(p))
        if len(pts) < 3:
            return
        P = np.array(pts, dtype=float)
        tri = P[2:] - P[1]
        c0 = (P[2, 0] - P[1, 0]) * (P[0, 1] - P[1, 1]) - (P[2, 1] - P[1, 1]) * (P[0, 0] - P[1, 0])
        if c0 == 0:
            rec.label("lattice_collinear_start")
            return  # the documented normal is undefined for a collinear leading triple
        simple = geom.is_simple_polygon_2d([tuple(map(int, p)) for p in pts])
        A2 = sum(pts[i][0] * pts[(i + 1) % len(pts)][1] - pts[(i + 1) % len(pts)][0] * pts[i][1] for i in range(len(pts)))
        arg = np.array(pts, dtype=np.int64) if case["intarray"] else [list(p) for p in pts]
        keep = arg.copy() if isinstance(arg, np.ndarray) else None
        r = call(S.Polygon, arg)
        rec.concrete = {"vertices": pts}
        rec.label("lattice", "lattice_simple" if simple else "lattice_nonsimple", "int_ndarray" if case["intarray"] else None)
        rec.nontrivial = True
        if keep is not None:
            rec.check(_same(arg, keep), "argument_unchanged", sig)
        if simple and A2 != 0:
            rec.check(not isinstance(r, Raised), "valid_polygon_accepted", dict(sig, type=getattr(r, "type", "")), error=getattr(r, "msg", ""))
        elif not simple:
            # touching configurations (vertex on another edge, overlapping collinear edges) are decision-boundary
            # cases for a floating-point test: only *proper* crossings must be rejected
            if _proper_crossing(P):
                rec.check(isinstance(r, Raised) and r.type == "ValueError", "crossing_polygon_rejected_with_ValueError", sig, got=repr(r)[:100])
            elif isinstance(r, Raised):
                rec.check(r.type == "ValueError", "only_ValueError", sig, got=repr(r)[:100])
        return
    xy = gp.build_polygon_xy(case["poly"])
    n = len(xy)
    em = gp.embed(xy, case["emb"])
    V = em["verts"] * 10.0 ** case["logs"]
    arg_n = em["normal_arg"]
    size = 2 * float(np.max(np.linalg.norm(V - V.mean(axis=0), axis=1)))
    if case.get("far") and mode != "too_few":
        # the same polygon 10^3..10^7 of its own sizes away from the origin, moved within its own plane (validity is a
        # property of the figure, not of where it lies); unit scale so that the documented absolute planarity
        # tolerance (1e-5) stays far above the rounding of the coordinates out there
        V = em["verts"].copy()
        size = 2 * float(np.max(np.linalg.norm(V - V.mean(axis=0), axis=1)))
        u_, v_, _ = geom.plane_frame(em["nplus"])
        far = case["far"]
        if case["emb"]["place"] is not None:
            # in a tilted plane the rounded coordinates are off the plane by a few eps*L, and the class tests
            # |n.v - d| against rtol*|d| + 1e-8 (numpy.isclose with rtol=planar_tolerance, a documented parameter):
            # beyond 1e5 sizes valid input is refused for that reason alone - a stated limit, not generated
            far = min(far, 5.0)
        V = V + 10.0 ** far * size * (0.6 * u_ + 0.8 * v_)
        P2f = np.stack([(V - V.mean(axis=0)) @ u_, (V - V.mean(axis=0)) @ v_], axis=1)
        if not geom.is_simple_polygon_2d(P2f) or len(np.unique(np.round(P2f / (1e-6 * size)), axis=0)) != len(P2f):
            rec.label("outside_domain:rounding_broke_simplicity")
            return
        sig["far"] = "1e%g" % far
        rec.label("far:1e%g" % far)
    expect_ok = True
    if mode == "crossing":
        i, j = case["i"] % n, case["j"] % n
        W = V.copy()
        W[[i, j]] = W[[j, i]]
        xy2 = xy.copy() if not em["cw"] else xy.copy()
        # decide on the planar coordinates handed to the class (rotation/offset do not matter): rebuild them
        u, v, _ = geom.plane_frame(em["nplus"])
        P2 = np.stack([(W - W.mean(axis=0)) @ u, (W - W.mean(axis=0)) @ v], axis=1)
        if i == j or not _proper_crossing(P2):
            rec.label("crossing_not_produced")
            return
        V = W
        expect_ok = False
    elif mode == "offplane":
        i = case["i"] % n
        V = V.copy()
        V[i] += (0.01 + 0.2 * (case["j"] % 10) / 10.0) * size * em["nplus"]
        expect_ok = False
        if n == 3 and arg_n is None:
            rec.label("triangle_always_planar")
            return
        if arg_n is None and i < 3:
            return  # the first three vertices define the plane
    elif mode == "duplicate":
        i, j = case["i"] % n, case["j"] % n
        if i == j:
            j = (i + 2) % n
        V = np.insert(V, j, V[i], axis=0)
        expect_ok = False
        sig["dup"] = "adjacent" if abs(i - j) in (0, 1) or {i, j} == {0, n} else "non_adjacent"
        rec.label("dup:" + sig["dup"])
    elif mode == "too_few":
        V = V[: case["i"] % 3]
        expect_ok = False
        if len(V) == 0:
            V = V.reshape(0, 3)
    arg_v = _contain(V, case["container"])
    keep_v = arg_v.copy() if isinstance(arg_v, np.ndarray) else None
    arg_nn = arg_n.copy() if isinstance(arg_n, np.ndarray) else arg_n
    keep_n = arg_nn.copy() if isinstance(arg_nn, np.ndarray) else None
    r = call(S.Polygon, arg_v, arg_nn) if arg_nn is not None else call(S.Polygon, arg_v)
    rec.concrete = {"vertices": V, "normal": None if arg_n is None else list(map(float, arg_n)), "mode": mode}
    convex = polygon_is_convex_ccw(xy)
    rec.label("mode:" + mode, "container:" + case["container"], "nonconvex_valid" if expect_ok and not convex else None,
              "scaled" if case["logs"] else None, "normal:" + case["emb"]["normal"])
    rec.nontrivial = (not expect_ok) or not convex or case["container"] == "ndarray"
    if keep_v is not None:
        rec.check(_same(arg_v, keep_v), "argument_unchanged", dict(sig, arg="vertices"))
    if keep_n is not None:
        rec.check(_same(arg_nn, keep_n), "argument_unchanged", dict(sig, arg="normal"), before=keep_n, after=arg_nn)
    if not expect_ok:
        rec.check(isinstance(r, Raised) and r.type == "ValueError", "invalid_polygon_rejected_with_ValueError", sig, got=repr(r)[:120])
        return
    if not rec.check(not isinstance(r, Raised), "valid_polygon_accepted", dict(sig, type=getattr(r, "type", "")), error=getattr(r, "msg", "")):
        return
    rec.close("stored_vertices_are_input", r.vertices, V, 0.0, sig)
    if arg_n is not None:  # a normal the caller asked for is the shape's normal (normalised), not the one of the vertex order
        want_n = np.asarray(em["normal_arg"], dtype=float)
        rec.close("normal_is_the_requested_one", r.normal, want_n / np.linalg.norm(want_n), 1e-12, sig)
    _alias_check(rec, r, [arg_v, arg_nn], sig, maxnorm(V))
    kw_t = {} if arg_n is None else {"normal": arg_n.copy() if isinstance(arg_n, np.ndarray) else arg_n}
    if case["i"] % 4 == 0:
        _twin_check(rec, lambda: S.Polygon(_contain(V, case["container"]), **kw_t), sig, maxnorm(V))


# ------------------------------------------------------------------- convex polytopes
@st.composite
def _convex2_case(draw):
    return {"poly": draw(gp.simple_polygon(max_n=14, kinds=("convex",))), "emb": draw(gp.embedding()), "perm": draw(noise(20)),
            "mode": draw(st.sampled_from(["valid", "valid", "interior_point", "negative_radius"])), "noise": draw(noise(4)),
            "sphero": draw(st.booleans()), "container": draw(st.sampled_from(["list", "ndarray", "ndarray", "tuple"])), "logr": draw(f(-2, 1))}


def _convex2(case, rec):
    xy = gp.build_polygon_xy(case["poly"])
    em = gp.embed(xy, case["emb"])
    V = em["verts"]
    n = len(V)
    mode = case["mode"]
    sphero = case["sphero"] or mode == "negative_radius"
    size = 2 * float(np.max(np.linalg.norm(V - V.mean(axis=0), axis=1)))
    u = unit(case["noise"])
    if mode == "interior_point":
        w = 0.2 + u[:3]
        k = [0, n // 3, (2 * n) // 3] if n >= 3 else [0, 1, 2]
        p = (w[0] * V[k[0]] + w[1] * V[k[1]] + w[2] * V[k[2]]) / w.sum()
        V = np.vstack([V, p])
    p_ = perm_from_noise(case["perm"], len(V))
    if mode == "interior_point" and em["normal_arg"] is None:
        # keep three hull vertices in front so that the default normal is well defined
        p_ = [i for i in p_ if i != len(V) - 1] + [len(V) - 1]
    Vp = V[p_]
    arg_v = _contain(Vp, case["container"])
    keep_v = arg_v.copy() if isinstance(arg_v, np.ndarray) else None
    arg_n = em["normal_arg"]
    arg_nn = arg_n.copy() if isinstance(arg_n, np.ndarray) else arg_n
    r_ = 10.0 ** case["logr"] * size
    if mode == "negative_radius":
        r_ = -r_
    cls = S.ConvexSpheropolygon if sphero else S.ConvexPolygon
    sig = {"cls": cls.__name__, "mode": mode}
    args = (arg_v, r_) if sphero else (arg_v,)
    kw = {} if arg_nn is None else {"normal": arg_nn}
    r = call(cls, *args, **kw)
    rec.concrete = {"vertices": Vp, "radius": r_ if sphero else None}
    rec.label(cls.__name__, "mode:" + mode, "container:" + case["container"])
    rec.nontrivial = True
    if keep_v is not None:
        rec.check(_same(arg_v, keep_v), "argument_unchanged", dict(sig, arg="vertices"))
    if mode != "valid":
        rec.check(isinstance(r, Raised) and r.type == "ValueError", "invalid_input_rejected_with_ValueError", sig, got=repr(r)[:120])
        return
    if not rec.check(not isinstance(r, Raised), "convex_position_accepted", dict(sig, type=getattr(r, "type", "")), error=getattr(r, "msg", "")):
        return
    W = np.asarray(r.vertices, dtype=float)
    nrm = np.asarray(r.normal, dtype=float)
    if arg_n is not None:
        want_n = np.asarray(em["normal_arg"], dtype=float)
        rec.close("normal_is_the_requested_one", nrm, want_n / np.linalg.norm(want_n), 1e-12, sig)
    rec.check({tuple(v) for v in W} == {tuple(v) for v in Vp} and len(W) == len(Vp), "stored_vertex_set_is_input", sig)
    rec.check(geom.polygon_moments(W, nrm)["signed_area"] > 0, "ccw_about_normal", sig)
    rec.close("starts_with_first_input_vertex", W[0], Vp[0], 0.0, sig)
    # the cycle must be the hull cycle: consecutive stored vertices are hull neighbours
    idx = {tuple(v): i for i, v in enumerate(em["verts"])}
    cyc = [idx[tuple(v)] for v in W]
    step = {(b - a) % n for a, b in zip(cyc, cyc[1:] + cyc[:1])}
    rec.check(step in ({1}, {n - 1}), "stored_cycle_is_hull_cycle", sig, cycle=cyc)
    _alias_check(rec, r, [arg_v, arg_nn], sig, maxnorm(Vp))
    # the very same vertex list handed to Polygon afterwards is judged on its own merits: what an earlier constructor
    # call accepted (ConvexPolygon may be given any order) says nothing about this cycle
    u_, v_, _ = geom.plane_frame(em["nplus"])
    P2 = np.stack([(Vp - Vp.mean(axis=0)) @ u_, (Vp - Vp.mean(axis=0)) @ v_], axis=1)
    cyc_in = [idx[tuple(v)] for v in Vp]
    hull_order = {(b - a) % n for a, b in zip(cyc_in, cyc_in[1:] + cyc_in[:1])} in ({1}, {n - 1})
    kw2 = {} if arg_n is None else {"normal": arg_n.copy() if isinstance(arg_n, np.ndarray) else arg_n}  # (the alias check scribbled on kw's)
    r2 = call(S.Polygon, _contain(Vp, case["container"]), **kw2)
    if case["perm"][0] % 4 == 0:
        _twin_check(rec, lambda: cls(*((_contain(Vp, case["container"]), r_) if sphero else (_contain(Vp, case["container"]),)), **dict(kw2)), sig, maxnorm(Vp))
    s2 = dict(sig, then="Polygon")
    if hull_order:
        rec.check(not isinstance(r2, Raised), "valid_polygon_accepted", dict(s2, type=getattr(r2, "type", "")), error=getattr(r2, "msg", ""))
    elif _proper_crossing(P2):
        rec.label("then_polygon_crossing")
        rec.check(isinstance(r2, Raised) and r2.type == "ValueError", "crossing_polygon_rejected_with_ValueError", s2, got=repr(r2)[:100])


@st.composite
def _convex3_case(draw):
    return {"cvx": draw(zoo.convex3d(max_n=16)), "place": draw(zoo.placement(max_offset=4.0, scale_decades=3.0)), "perm": draw(noise(40)),
            "mode": draw(st.sampled_from(["valid", "valid", "interior_point", "negative_radius"])), "noise": draw(noise(6)),
            "sphero": draw(st.booleans()), "container": draw(st.sampled_from(["list", "ndarray", "ndarray", "tuple"])), "logr": draw(f(-2, 1))}


def _convex3(case, rec):
    V, R, t, s = zoo.apply_placement(case["place"], zoo.build_convex(case["cvx"])["verts"])
    mode = case["mode"]
    sphero = case["sphero"] or mode == "negative_radius"
    size = 2 * float(np.max(np.linalg.norm(V - V.mean(axis=0), axis=1)))
    u = unit(case["noise"])
    n0 = len(V)
    if mode == "interior_point":
        w = 0.15 + u[:4]
        k = [int(x) % n0 for x in (0, n0 // 4 + 1, n0 // 2 + 1, (3 * n0) // 4 + 2)]
        p = sum(wi * V[ki] for wi, ki in zip(w, k)) / w.sum()
        facets, nrm, off, _ = geom.convex_facets(V)
        depth = float((off - nrm @ p).min()) / size
        if depth < 1e-3:
            rec.label("interior_point_too_shallow")
            return
        V = np.vstack([V, p])
    Vp = V[perm_from_noise(case["perm"], len(V))]
    arg_v = _contain(Vp, case["container"])
    keep_v = arg_v.copy() if isinstance(arg_v, np.ndarray) else None
    r_ = 10.0 ** case["logr"] * size * (-1 if mode == "negative_radius" else 1)
    cls = S.ConvexSpheropolyhedron if sphero else S.ConvexPolyhedron
    sig = {"cls": cls.__name__, "mode": mode}
    r = call(cls, arg_v, r_) if sphero else call(cls, arg_v)
    rec.concrete = {"vertices": Vp, "radius": r_ if sphero else None}
    rec.label(cls.__name__, "mode:" + mode, "container:" + case["container"], "kind:" + case["cvx"]["kind"])
    rec.nontrivial = True
    if keep_v is not None:
        rec.check(_same(arg_v, keep_v), "argument_unchanged", dict(sig, arg="vertices"))
    if mode != "valid":
        rec.check(isinstance(r, Raised) and r.type == "ValueError", "invalid_input_rejected_with_ValueError", sig, got=repr(r)[:120])
        return
    if not rec.check(not isinstance(r, Raised), "convex_position_accepted", dict(sig, type=getattr(r, "type", "")), error=getattr(r, "msg", "")):
        return
    rec.close("stored_vertices_are_input", r.vertices, Vp, 0.0, sig)
    _alias_check(rec, r, [arg_v], sig, maxnorm(Vp))
    if case["perm"][0] % 4 == 0:
        _twin_check(rec, lambda: cls(_contain(Vp, case["container"]), r_) if sphero else cls(_contain(Vp, case["container"])), sig, maxnorm(Vp))


@st.composite
def _mesh_case(draw):
    return {"mesh": draw(zoo.mesh3d(max_n=10)), "container": draw(st.sampled_from(["list", "ndarray"])), "faces_as": draw(st.sampled_from(["lists", "arrays"]))}


def _mesh(case, rec):
    m = zoo.build_mesh(case["mesh"])
    V = m["verts"] + np.array([0.5, -0.25, 0.125])
    F = [list(map(int, f_)) for f_ in m["faces"]]
    arg_v = _contain(V, case["container"])
    arg_f = [np.array(f_) for f_ in F] if case["faces_as"] == "arrays" else [list(f_) for f_ in F]
    keep_v = arg_v.copy() if isinstance(arg_v, np.ndarray) else None
    keep_f = [np.array(f_) for f_ in F]
    sig = {"cls": "Polyhedron", "faces_as": case["faces_as"]}
    r = call(S.Polyhedron, arg_v, arg_f, True)
    rec.concrete = {"vertices": V, "faces": F}
    rec.label("Polyhedron", "faces_as:" + case["faces_as"], "container:" + case["container"])
    rec.nontrivial = True
    if not rec.check(not isinstance(r, Raised), "valid_mesh_accepted", dict(sig, type=getattr(r, "type", "")), error=getattr(r, "msg", "")):
        return
    if keep_v is not None:
        rec.check(_same(arg_v, keep_v), "argument_unchanged", dict(sig, arg="vertices"))
    rec.check(all(np.array_equal(a, b) for a, b in zip(arg_f, keep_f)), "argument_unchanged", dict(sig, arg="faces"))
    # operations on the shape must not reach back into the caller's arrays either
    call(r.sort_faces)
    call(setattr, r, "volume", 2.0 * float(r.volume))
    if keep_v is not None:
        rec.check(_same(arg_v, keep_v), "argument_unchanged_by_later_operations", dict(sig, arg="vertices"))
    rec.check(all(np.array_equal(a, b) for a, b in zip(arg_f, keep_f)), "argument_unchanged_by_later_operations", dict(sig, arg="faces"))
    r2 = call(S.Polyhedron, arg_v, arg_f, True)
    if not isinstance(r2, Raised):
        arrs = [arg_v] + ([a for a in arg_f] if case["faces_as"] == "arrays" else [])
        before = observe.canonical(observe.observe(r2))
        if isinstance(arg_v, np.ndarray):
            arg_v *= 1.5
        if case["faces_as"] == "arrays":
            for a in arg_f:
                a[...] = np.roll(a, 1)
        after = observe.canonical(observe.observe(r2))
        observe.compare(rec, before, after, maxnorm(V), True, sig, "aliased_argument_", rtol=1e-13)
        rec.label("alias_checked")


# ---------------------------------------------------------------------------- curved
@st.composite
def _curved_case(draw):
    cls = draw(st.sampled_from(["Circle", "Ellipse", "Sphere", "Ellipsoid"]))
    k = {"Circle": 1, "Sphere": 1, "Ellipse": 2, "Ellipsoid": 3}[cls]
    return {"cls": cls, "axes": draw(curved.axes(k)), "centre": draw(curved.centre(dim3=cls in ("Sphere", "Ellipsoid"))),
            "bad": draw(st.sampled_from([None, None, 0.0, -1.0, float("nan"), -0.0])), "which": draw(st.integers(0, 2))}


def _curved(case, rec):
    cls = case["cls"]
    ax = list(case["axes"]["axes"])
    cen = curved.make_centre(case["centre"], max(ax))
    keep = cen.copy() if isinstance(cen, np.ndarray) else None
    bad = case["bad"]
    sig = {"cls": cls, "bad": repr(bad)}
    if bad is not None:
        ax[case["which"] % len(ax)] = bad * (max(ax) if bad == bad and bad != 0 else 1.0)
    r = call(getattr(S, cls), *ax, cen)
    rec.concrete = {"cls": cls, "axes": ax, "centre": list(map(float, cen))}
    rec.label(cls, "bad:" + repr(bad), "container:" + case["centre"]["container"])
    rec.nontrivial = True
    if keep is not None:
        rec.check(_same(cen, keep), "argument_unchanged", dict(sig, arg="center"))
    if bad is not None:
        rec.check(isinstance(r, Raised) and r.type == "ValueError", "nonpositive_axis_rejected_with_ValueError", sig, got=repr(r)[:100])
        return
    if not rec.check(not isinstance(r, Raised), "valid_curved_shape_accepted", dict(sig, type=getattr(r, "type", "")), error=getattr(r, "msg", "")):
        return
    rec.close("stored_centre", r.centroid, np.asarray(cen, dtype=float), 0.0, sig)
    if isinstance(cen, np.ndarray):
        before = observe.canonical(observe.observe(r))
        cen += 3  # (in place, whatever the dtype)
        after = observe.canonical(observe.observe(r))
        observe.compare(rec, before, after, max(ax) + float(np.linalg.norm(keep)), cls in ("Sphere", "Ellipsoid"), sig, "aliased_argument_", rtol=1e-13)
        rec.label("alias_checked")
    cen_t = curved.make_centre(case["centre"], max(ax))
    _twin_check(rec, lambda: call(getattr(S, cls), *ax, curved.make_centre(case["centre"], max(ax))), sig,
                max(ax) + float(np.linalg.norm(np.asarray(cen_t, dtype=float))))


def clauses():
    return [
        Clause("polygon", _polygon_case(), _polygon, quick=4500, thorough=40000, rule="Polygon valid/invalid",
               floors={"mode:crossing": 0.05, "mode:duplicate": 0.08, "dup:non_adjacent": 0.03, "lattice_nonsimple": 0.03, "alias_checked": 0.1}),
        Clause("convex_polygon", _convex2_case(), _convex2, quick=1800, thorough=15000, rule="ConvexPolygon / ConvexSpheropolygon",
               floors={"mode:interior_point": 0.1, "alias_checked": 0.1}),
        Clause("convex_polyhedron", _convex3_case(), _convex3, quick=1200, thorough=10000, rule="ConvexPolyhedron / ConvexSpheropolyhedron",
               floors={"mode:interior_point": 0.05, "alias_checked": 0.08}),
        Clause("polyhedron", _mesh_case(), _mesh, quick=450, thorough=4000, rule="Polyhedron", floors={"alias_checked": 0.5}),
        Clause("curved", _curved_case(), _curved, quick=1800, thorough=10000, rule="Circle/Ellipse/Sphere/Ellipsoid", floors={"alias_checked": 0.03}),
    ]


def selftest():
    geom.self_test()
    assert _proper_crossing(np.array([[0, 0], [2, 2], [2, 0], [0, 2.0]]))
    assert not _proper_crossing(np.array([[0, 0], [2, 0], [2, 2], [0, 2.0]]))


def fuzz_targets():
    """atheris: bytes -> integer polygon on an 8x8 grid -> Polygon(...) judged by the exact classifier of clause
    'polygon' (mode 'lattice'); coverage guides the search through the vendored sweep line's event orders."""
    seeds = [bytes([4, 0, 7, 63, 56, 1]), bytes([5, 0, 18, 2, 16, 0, 1]), bytes([1, 9, 27, 13, 45, 0])]
    return [{"clause": "polygon", "decoder": "lattice_polygon", "runs_quick": 4000, "runs_thorough": 400000, "seeds": seeds, "max_len": 24}]
