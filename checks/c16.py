"""C16 - queries are free of side effects (exhaustive over ordered pairs of queries)."""
import copy
import os
import re
import shutil
import tempfile

import numpy as np

from checks import observe
from checks.common import S, Raised, call, coxeter, maxnorm
from harness.runner import Clause
from oracle import geom

RULE = ("Enumerated: for each of 17 base shapes (all ten classes; polygons both in the xy-plane and tilted; off-origin, negative "
        "coordinates, irregular) the query alphabet is obtained by reflection (every public property getter, is_inside, "
        "compute_form_factor_amplitude, distance_to_surface, get_face_area, get_dihedral, repr, str, to_json, to_hoomd, "
        "gsd_shape_spec, save and coxeter.io.to_* in 7 formats) and ordered pairs (q1, q2) are run as q1, q2, q1 on a fresh object. "
        "Oracle: all observables afterwards equal those of an untouched twin (rtol 1e-12), argument arrays bit-identical, arrays "
        "handed out earlier (vertices, centroid, normal, faces, equations, ...) unchanged, the second answer of q1 equals the first. "
        "quick: all pairs with q1 or q2 in the set of queries that move/triangulate/export internally plus all (q, q); thorough: all "
        "ordered pairs. Non-trivial: a pair in which at least one query is not a plain attribute read; distinct = distinct pair x shape.")
ASSUMPTIONS = ["'unchanged' = relative 1e-12 of the shape's largest coordinate (operations that move the shape and move it back)"]
EXHAUSTIVE = True

_B3 = np.array([[0, 0, 0], [2, 0, 0], [2, 1.5, 0], [0, 1.5, 0], [0.3, 0.2, 1.0], [1.6, 0.4, 1.2], [0.9, 1.3, 0.7]], dtype=float) + [-3.0, 1.0, -2.0]
_Q2 = np.array([[0, 0], [3, 0.2], [2.6, 1.9], [0.4, 1.1]], dtype=float) + [1.5, -0.7]  # irregular quadrilateral
_N2 = np.array([[0, 0], [3, 0.1], [3.2, 2], [1.5, 0.8], [0.1, 2.2]], dtype=float) + [-1.5, 0.7]  # non-convex


def _tilt(xy):
    R = geom.rotation_from_quaternion(np.array([0.9, 0.3, -0.2, 0.25]))
    return np.c_[xy, np.zeros(len(xy))] @ R.T + [0.4, -0.3, 0.8]


def _facets(V):
    return [np.array(f) for f in geom.convex_facets(V)[0]]


BASES = {
    "ConvexPolyhedron": lambda: S.ConvexPolyhedron(_B3.copy()),
    "Polyhedron": lambda: S.Polyhedron(_B3.copy(), _facets(_B3), True),
    "ConvexSpheropolyhedron": lambda: S.ConvexSpheropolyhedron(_B3.copy(), 0.35),
    "Polygon_xy": lambda: S.Polygon(_N2.copy()),
    "Polygon_tilted": lambda: S.Polygon(_tilt(_N2)),
    "Polygon_tilted_quad": lambda: S.Polygon(_tilt(_Q2)),
    "ConvexPolygon_xy": lambda: S.ConvexPolygon(_Q2.copy()),
    "ConvexPolygon_tilted": lambda: S.ConvexPolygon(_tilt(_Q2)),
    "ConvexSpheropolygon": lambda: S.ConvexSpheropolygon(_Q2.copy(), 0.3),
    # the same figures handed over the other way round: explicit -z normal, clockwise vertex lists (default normal -z),
    # a polyhedron whose faces are not flagged convex (queries go through the ear-clipping triangulation)
    "ConvexPolygon_xy_minus_z": lambda: S.ConvexPolygon(_Q2.copy(), normal=[0.0, 0.0, -1.0]),
    "ConvexSpheropolygon_cw": lambda: S.ConvexSpheropolygon(_Q2[::-1].copy(), 0.3),
    "Polygon_xy_cw": lambda: S.Polygon(_N2[::-1].copy()),
    # the rounding radius handed over as a 0-d array (np.asarray(x), np.squeeze of a one-element array): a mutable object
    # that an augmented assignment inside a query would change in place
    "ConvexSpheropolyhedron_r0d": lambda: S.ConvexSpheropolyhedron(_B3.copy(), np.array(0.35)),
    "ConvexSpheropolygon_r0d": lambda: S.ConvexSpheropolygon(_Q2.copy(), np.array(0.3)),
    "Polyhedron_unflagged": lambda: S.Polyhedron(_B3.copy(), _facets(_B3)),
    "Circle": lambda: S.Circle(1.3, np.array([0.5, -0.2, 0.0])),
    "Ellipse": lambda: S.Ellipse(1.3, 0.6, np.array([0.5, -0.2, 0.0])),
    "Sphere": lambda: S.Sphere(1.3, np.array([0.5, -0.2, 0.8])),
    "Ellipsoid": lambda: S.Ellipsoid(1.3, 0.6, 2.1, np.array([0.5, -0.2, 0.8])),
}
FORMATS = ["OBJ", "OFF", "PLY", "VTK", "STL", "X3D", "HTML"]
HEAVY_WORDS = ("inertia", "to_hoomd", "io:", "save:", "is_inside", "form_factor", "centroid", "center", "distance_to_surface", "minimal_bounding",
               "get_face_area", "to_json", "planar_moments", "polar_moment", "dihedral", "mean_curvature", "volume", "surface_area", "repr")


def alphabet(base):
    """name -> callable(shape, args) for every query of the class; args are fresh caller arrays."""
    shape = BASES[base]()
    out = {}
    for name, fn in observe.readers(shape, with_queries=False):
        out["get:" + name] = fn
    for name in observe.DEPRECATED:
        if hasattr(type(shape), name):
            out["get:" + name] = (lambda s, n=name: observe._convert(call(getattr, s, n)))
    out["repr"] = lambda s: call(repr, s)
    out["str"] = lambda s: call(str, s)
    attrs = [a for a in ("vertices", "volume", "area", "centroid", "inertia_tensor", "radius") if hasattr(type(shape), a)][:3]
    out["to_json"] = lambda s: call(s.to_json, list(attrs))
    if hasattr(shape, "to_hoomd"):
        out["to_hoomd"] = lambda s: call(s.to_hoomd)
    if hasattr(type(shape), "faces"):
        tmpd = [None]

        def exporter(fmt, via_save):
            def run(s):
                d = tempfile.mkdtemp(prefix="c16_")
                try:
                    p = os.path.join(d, "x." + fmt.lower())
                    r = call(s.save, fmt, p) if via_save else call(getattr(coxeter.io, "to_" + fmt.lower()), s, p)
                    return r if isinstance(r, Raised) else open(p, "rb").read()
                finally:
                    shutil.rmtree(d, ignore_errors=True)
            return run

        for fmt in FORMATS:
            out["io:" + fmt] = exporter(fmt, False)
        out["save:STL"] = exporter("STL", True)
        out["save:OBJ"] = exporter("OBJ", True)
        out["get_face_area()"] = lambda s: call(s.get_face_area)
        out["get_face_area(1)"] = lambda s: call(s.get_face_area, 1)
        out["get_dihedral"] = lambda s: call(s.get_dihedral, 0, int(s.neighbors[0][0]))
        out["get_dihedral_nonneighbour"] = lambda s: call(s.get_dihedral, 0, [j for j in range(s.num_faces) if j and j not in set(map(int, s.neighbors[0]))][0])
    return out


def arg_queries(base):
    """Queries taking caller arrays: name -> (make_args() -> tuple of arrays, fn(shape, *args))."""
    shape = BASES[base]()
    out = {}
    has_v = hasattr(type(shape), "vertices")
    if has_v:
        P, size = observe.probe_points(shape.vertices, float(getattr(shape, "radius", 0.0) or 0.0))
    else:
        c = np.asarray(shape.centroid, dtype=float)
        m = max([getattr(shape, k) for k in ("a", "b", "c") if hasattr(shape, k)] or [shape.radius])
        P, size = c + m * np.array([[0.2, 0.1, 0], [0.9, 0.2, 0], [-0.5, 0.8, 0], [1.2, 0, 0], [0, -1.4, 0]]), m
    if not isinstance(shape, S.ConvexSpheropolygon):
        out["is_inside(batch)"] = (lambda: (P.copy(),), lambda s, p: call(s.is_inside, p))
        out["is_inside(point)"] = (lambda: (P[3].copy(),), lambda s, p: call(s.is_inside, p))
    q = np.array([[0.0, 0, 0], [0.3, -0.2, 0.5], [1.1, 0.7, -0.4]]) / size
    if isinstance(shape, (S.Polygon, S.Polyhedron, S.Sphere)) and not isinstance(shape, S.ConvexSpheropolyhedron):
        out["form_factor(batch)"] = (lambda: (q.copy(),), lambda s, k: call(s.compute_form_factor_amplitude, k))
        out["form_factor(single)"] = (lambda: (q[1:2].copy(),), lambda s, k: call(s.compute_form_factor_amplitude, k))
    if isinstance(shape, (S.ConvexPolygon, S.ConvexSpheropolygon, S.Circle, S.Ellipse)) and base in ("ConvexPolygon_xy", "ConvexSpheropolygon", "Circle", "Ellipse",
                                                                                                 "ConvexPolygon_xy_minus_z", "ConvexSpheropolygon_cw", "ConvexSpheropolygon_r0d"):
        ang = np.array([0.0, 0.4, 1.3, -2.2, 7.3])
        out["distance_to_surface"] = (lambda: (ang.copy(),), lambda s, a: call(s.distance_to_surface, a))
    return out


_ALPHA = {}


def full_alphabet(base):
    if base not in _ALPHA:
        a = {k: ((lambda: ()), (lambda s, f=f: f(s))) for k, f in alphabet(base).items()}
        a.update(arg_queries(base))
        _ALPHA[base] = a
    return _ALPHA[base]


def _cases(tier):
    out = []
    for base in BASES:
        names = sorted(full_alphabet(base))
        heavy = [n for n in names if any(w in n for w in HEAVY_WORDS)]
        for a in names:
            for b in names:
                if tier == "thorough" or a == b or a in heavy or b in heavy:
                    out.append({"base": base, "q1": a, "q2": b})
    return out


_S0 = {}


def _twin(base):
    """Observables of an untouched twin (each read from its own deep copy)."""
    if base not in _S0:
        _S0[base] = observe.canonical(observe.observe(BASES[base](), isolated=True))
    return _S0[base]


def _eq(a, b, L, name):
    if isinstance(a, Raised) or isinstance(b, Raised):
        return isinstance(a, Raised) and isinstance(b, Raised) and a.type == b.type
    if isinstance(a, (bytes, str)) or isinstance(b, (bytes, str)):
        if a == b:
            return True
        if type(a) is not type(b):
            return False
        # exported text: numbers may differ in the last digits when a query in between moved the
        # shape and moved it back; everything else must be identical
        ta = re.findall(r"[^\s\"<>=,]+", a.decode() if isinstance(a, bytes) else a)
        tb = re.findall(r"[^\s\"<>=,]+", b.decode() if isinstance(b, bytes) else b)
        if len(ta) != len(tb):
            return False
        for x, y in zip(ta, tb):
            if x == y:
                continue
            try:
                if abs(float(x) - float(y)) > 1e-12 * L:
                    return False
            except ValueError:
                return False
        return True
    if isinstance(a, dict) and isinstance(b, dict):
        return set(a) == set(b) and all(_eq(a[k], b[k], L, name) for k in a)
    try:
        x, y = np.asarray(a), np.asarray(b)
        if x.dtype == object or y.dtype == object:
            raise TypeError
        if x.shape != y.shape:
            return False
        if x.dtype.kind in "biu" and y.dtype.kind in "biu":
            return bool(np.array_equal(x, y))
        rt = 1e-5 if "minimal_bounding" in name and "centered" not in name else 1e-12
        d = observe.dimension(name.replace("get:", ""), True)
        mag = max(float(np.max(np.abs(x))) if x.size else 0.0, L**d if d else 1.0)
        return bool(np.all(np.abs(x - y) <= rt * mag) or np.array_equal(x, y, equal_nan=True))
    except Exception:
        try:
            return len(a) == len(b) and all(_eq(u, v, L, name) for u, v in zip(a, b))
        except TypeError:
            return repr(a) == repr(b)


def _run(case, rec):
    base, n1, n2 = case["base"], case["q1"], case["q2"]
    A = BASES[base]()
    alpha = full_alphabet(base)
    sig = {"base": base}
    L = maxnorm(A.vertices) if hasattr(type(A), "vertices") else float(np.linalg.norm(A.centroid)) + 2.0
    three = observe.is3d(A)
    # arrays the shape hands out before the queries run
    handed = {}
    for name in ("vertices", "centroid", "normal", "faces", "equations", "normals", "neighbors", "edges", "simplices"):
        if hasattr(type(A), name):
            v = call(getattr, A, name)
            if isinstance(v, np.ndarray):
                handed[name] = (v, v.copy())
            elif isinstance(v, list) and v and isinstance(v[0], np.ndarray):
                handed[name] = (v, [x.copy() for x in v])
    mk1, f1 = alpha[n1]
    mk2, f2 = alpha[n2]
    a1 = mk1()
    k1 = tuple(x.copy() for x in a1)
    r1 = f1(A, *a1)
    a2 = mk2()
    k2 = tuple(x.copy() for x in a2)
    f2(A, *a2)
    a3 = mk1()
    r3 = f1(A, *a3)
    rec.concrete = {"base": base, "q1": n1, "q2": n2}
    plain = lambda n: n.startswith("get:") and not any(w in n for w in HEAVY_WORDS)  # noqa: E731
    rec.label("base:" + base, "both_plain" if plain(n1) and plain(n2) else "nonplain")
    rec.nontrivial = not (plain(n1) and plain(n2))
    rec.check(all(np.array_equal(x, y) for x, y in zip(a1, k1)) and all(np.array_equal(x, y) for x, y in zip(a2, k2)),
              "argument_arrays_unchanged", sig, q1=n1, q2=n2)
    rec.check(_eq(r1, r3, L, n1) or n1 in ("repr", "str"), "repeated_query_same_answer", dict(sig, q=n1), between=n2, first=repr(r1)[:100], second=repr(r3)[:100])
    for name, (arr, cp) in handed.items():
        if isinstance(arr, np.ndarray):
            ok = arr.shape == cp.shape and (np.array_equal(arr, cp) or np.all(np.abs(arr.astype(float) - cp.astype(float)) <= 1e-12 * L))
        else:
            ok = len(arr) == len(cp) and all(np.array_equal(x, y) for x, y in zip(arr, cp))
        rec.check(bool(ok), "handed_out_array_unchanged", dict(sig, array=name), q1=n1, q2=n2)
    after = observe.canonical(observe.observe(A))
    nf = len(rec.fails)
    observe.compare(rec, _twin(base), after, L, three, sig, "observable_unchanged_", rtol=1e-12, miniball=False, skip=("repr",))
    for f_ in rec.fails[nf:]:
        f_["detail"] = dict(f_["detail"], q1=n1, q2=n2)


def clauses():
    return [Clause("query_pairs", None, _run, quick=0, thorough=0, enumerate_cases=_cases,
                   rule="ordered pairs of the reflection-enumerated query alphabet per base shape", floors={"nonplain": 0.5})]


def selftest():
    for base in BASES:
        assert len(full_alphabet(base)) >= 20, base
