"""C11 - rounded shapes obey Steiner formulas; curvature descriptors match definitions."""
import math

import numpy as np
from hypothesis import strategies as st

from checks import observe
from checks.common import S, Raised, call, diameter, get, maxnorm, perm_from_noise, tol_scale
from gen import poly as gp
from gen import zoo
from harness.runner import EPS, Clause
from oracle import geom

RULE = ("Generated: convex cores (zoo polyhedra; convex polygons in any plane/orientation) x rounding radius r in {0} U "
        "10^U(-3,2)*size, rigid placement up to 5 diameters. Oracle: A, P, V, S from the exact polygon/tetrahedral oracles, "
        "M = sum over brute-force hull edges of length x exterior angle (atan2 of oracle normals) / 8 pi; Steiner polynomials. "
        "Non-trivial: r > 0 with a core that has a non-triangular facet or is off-origin, or r = 0 (must reproduce the core).")
ASSUMPTIONS = ["tolerance: conditioning-aware core tolerance (as C01/C04) plus 1e-10 relative on each Steiner term; mean curvature: 3e-8 rad per edge (arccos conditioning near coplanar faces)"]
K = 1e4


@st.composite
def _case3(draw, decades=1.0):
    r = None if draw(st.integers(0, 9)) == 0 else draw(st.sampled_from([-3.0, -2.5, -2.0, -1.5, -1.0, -0.5, 0.0, 0.5, 1.0, 1.5, 2.0])) + draw(zoo.f(-0.25, 0.25))
    return {"cvx": draw(zoo.convex3d(max_n=24, kinds=("ellipsoid", "lattice", "prismatoid", "tabulated", "roofed"))), "place": draw(zoo.placement(max_offset=5.0, scale_decades=decades)), "logr": r,
            "perm": draw(zoo.noise(64)), "twin32": draw(st.integers(0, 5)) == 0}


@st.composite
def _case2(draw, decades=0.0):
    r = None if draw(st.integers(0, 9)) == 0 else draw(st.sampled_from([-3.0, -2.5, -2.0, -1.5, -1.0, -0.5, 0.0, 0.5, 1.0, 1.5, 2.0])) + draw(zoo.f(-0.25, 0.25))
    return {"poly": draw(gp.simple_polygon(max_n=20, kinds=("convex",))), "emb": draw(gp.embedding()), "logr": r,
            "perm": draw(zoo.noise(32)), "twin32": draw(st.integers(0, 5)) == 0, "logs": draw(st.sampled_from([k / 2.0 for k in range(-int(2 * decades), 13)])) if decades else 0.0}


def mean_curvature_oracle(V, facets, nrm):
    owner = {}
    tot = 0.0
    for i, fc in enumerate(facets):
        for a, b in zip(fc, fc[1:] + fc[:1]):
            e = (min(a, b), max(a, b))
            if e in owner:
                j = owner[e]
                ang = math.atan2(np.linalg.norm(np.cross(nrm[i], nrm[j])), float(np.dot(nrm[i], nrm[j])))
                tot += float(np.linalg.norm(V[a] - V[b])) * ang
            else:
                owner[e] = i
    return tot / (8 * math.pi)


def total_edge_length(V, facets):
    return sum(float(np.linalg.norm(V[a] - V[b])) for fc in facets for a, b in zip(fc, fc[1:] + fc[:1])) / 2


def _poly3(case, rec):
    c = zoo.build_convex(case["cvx"])
    V, R, t, s = zoo.apply_placement(case["place"], c["verts"])
    V = V[perm_from_noise(case["perm"], len(V))]
    facets, nrm, off, _ = geom.convex_facets(V)
    m = geom.mesh_moments(V, facets)
    vol = m["volume"]
    area = sum(geom.face_area_centroid(V[f])[0] for f in facets)
    M = mean_curvature_oracle(V, facets, nrm)
    size = diameter(V)
    ntri = sum(len(f) - 2 for f in facets)
    T = tol_scale(V, ntri, K)
    r = 0.0 if case["logr"] is None else float(10.0 ** case["logr"] * size)
    sig = {"r": "0" if r == 0 else "pos"}
    rec.concrete = {"vertices": V, "radius": r}
    maxdeg = max(len(f) for f in facets)
    off_ = float(np.linalg.norm(V.mean(axis=0))) / size
    rec.label("r=0" if r == 0 else "r>0", "nontriangular" if maxdeg > 3 else None, "offset>=1" if off_ >= 1 else None,
              "kind:" + case["cvx"]["kind"], "r/size:1e%d" % int(math.floor(math.log10(r / size))) if r > 0 else None)
    rec.nontrivial = r == 0 or maxdeg > 3 or off_ >= 1
    # --- ConvexPolyhedron descriptors
    P = call(S.ConvexPolyhedron, V.copy())
    if isinstance(P, Raised):
        rec.fail("construct_core", dict(sig, type=P.type), msg=P.msg)
        return
    L = maxnorm(V)
    # M is a sum of lengths x angles; an angle obtained from a dot product of unit normals carries up to
    # sqrt(eps) ~ 1.5e-8 of absolute error when two faces are (nearly) coplanar, on every edge
    tM = K * EPS * ntri * L + 3e-8 * total_edge_length(V, facets) / (8 * math.pi)
    rec.close("mean_curvature", get(P, "mean_curvature"), M, tM, sig)
    tau = 4 * math.pi * M * M / area
    rec.close("tau", get(P, "tau"), tau, tau * (2 * tM / M + T["area"] / area + 1e-10), sig)
    asph = M * area / (3 * vol)
    rel3 = T["vol"] / vol + T["area"] / area + tM / M
    rec.close("asphericity", get(P, "asphericity"), asph, asph * (rel3 + 1e-10), sig)
    iq = 36 * math.pi * vol * vol / area**3
    rec.close("iq", get(P, "iq"), iq, iq * (2 * T["vol"] / vol + 3 * T["area"] / area + 1e-10), sig)
    # --- spheropolyhedron
    Sp = call(S.ConvexSpheropolyhedron, V.copy(), r)
    if isinstance(Sp, Raised):
        rec.fail("construct", dict(sig, type=Sp.type), msg=Sp.msg)
        return
    if case.get("twin32"):
        observe.dtype_twin(rec, S.ConvexPolyhedron, V, (), sig, True)
        observe.dtype_twin(rec, S.ConvexSpheropolyhedron, V, (r,), sig, True)
    wantV = vol + area * r + 4 * math.pi * M * r * r + 4 / 3 * math.pi * r**3
    wantS = area + 8 * math.pi * M * r + 4 * math.pi * r * r
    tolV = T["vol"] + T["area"] * r + 4 * math.pi * tM * r * r + 1e-10 * wantV
    tolS = T["area"] + 8 * math.pi * tM * r + 1e-10 * wantS
    rec.close("sphero_volume", get(Sp, "volume"), wantV, tolV, sig)
    rec.close("sphero_surface_area", get(Sp, "surface_area"), wantS, tolS, sig)
    rec.close("sphero_mean_curvature", get(Sp, "mean_curvature"), M + r, tM + 1e-12 * r, sig)
    rec.close("sphero_radius", get(Sp, "radius"), r, 0.0, sig)
    if r == 0:
        rec.close("r0_volume_is_core", get(Sp, "volume"), get(P, "volume"), 4 * EPS * vol, sig)
        rec.close("r0_area_is_core", get(Sp, "surface_area"), get(P, "surface_area"), 4 * EPS * area, sig)
        rec.close("r0_curvature_is_core", get(Sp, "mean_curvature"), get(P, "mean_curvature"), 4 * EPS * M, sig)


def _poly2(case, rec):
    xy = gp.build_polygon_xy(case["poly"])
    em = gp.embed(xy, case["emb"])
    logs = case.get("logs", 0.0)
    if logs > 5.0 and case["emb"]["place"] is not None:
        logs = 5.0  # tilted planes only up to 1e5 (Polygon's documented planarity tolerance, see C04)
    sc = 10.0 ** logs
    V, arg = em["verts"] * sc, em["normal_arg"]
    Vccw = V.copy()
    V = V[perm_from_noise(case["perm"], len(V))]  # ConvexSpheropolygon accepts any vertex order
    nrm = em["nplus"]
    o = geom.polygon_moments(Vccw, nrm)
    A, Pm = o["area"], o["perimeter"]
    size = diameter(V)
    r = 0.0 if case["logr"] is None else float(10.0 ** case["logr"] * size)
    sig = {"r": "0" if r == 0 else "pos", "dim": "2"}
    L = maxnorm(V)
    e = K * EPS * len(V)
    tA, tP = e * L * L, e * L
    rec.concrete = {"vertices": V, "radius": r, "normal": None if arg is None else list(map(float, arg))}
    inplane = case["emb"]["place"] is None
    rec.label("r=0" if r == 0 else "r>0", "tilted" if not inplane else "inplane", "normal:" + case["emb"]["normal"])
    rec.nontrivial = True
    argc = arg.copy() if isinstance(arg, np.ndarray) else arg
    Sp = call(S.ConvexSpheropolygon, V.copy(), r, argc) if arg is not None else call(S.ConvexSpheropolygon, V.copy(), r)
    if isinstance(Sp, Raised):
        rec.fail("construct", dict(sig, type=Sp.type), msg=Sp.msg)
        return
    if case.get("twin32") and inplane:
        observe.dtype_twin(rec, S.ConvexSpheropolygon, V[:, :2] if arg is None else V, (r,) if arg is None else (r, argc), sig, False)
        observe.dtype_twin(rec, S.ConvexPolygon, V[:, :2] if arg is None else V, () if arg is None else (argc,), sig, False)
    wantA = A + Pm * r + math.pi * r * r
    rec.close("sphero_area", get(Sp, "area"), wantA, tA + tP * r + 1e-10 * wantA, sig)
    core = get(Sp, "polygon")
    sa = get(Sp, "signed_area")
    if not isinstance(core, Raised) and not isinstance(sa, Raised):
        csa = get(core, "signed_area")
        rec.check(np.sign(sa) == np.sign(csa), "signed_area_sign_follows_core", sig, sphero=sa, core=csa)
        rec.close("sphero_signed_area_magnitude", abs(sa), wantA, tA + tP * r + 1e-10 * wantA, sig)
    rec.close("sphero_perimeter", get(Sp, "perimeter"), Pm + 2 * math.pi * r, tP + 1e-10 * (Pm + r), sig)
    rec.close("sphero_radius", get(Sp, "radius"), r, 0.0, sig)
    if r == 0 and not isinstance(core, Raised):
        rec.close("r0_area_is_core", get(Sp, "area"), get(core, "area"), 4 * EPS * A, sig)
        rec.close("r0_perimeter_is_core", get(Sp, "perimeter"), get(core, "perimeter"), 4 * EPS * Pm, sig)


def clauses():
    return [
        Clause("spheropolyhedron", _case3(), _poly3, quick=2400, thorough=15000, rule="ConvexSpheropolyhedron + ConvexPolyhedron descriptors",
               floors={"r>0": 0.6, "r=0": 0.03, "nontriangular": 0.25}),
        Clause("spheropolygon", _case2(), _poly2, quick=3200, thorough=20000, rule="ConvexSpheropolygon",
               floors={"r>0": 0.6, "r=0": 0.03, "tilted": 0.3}),
        Clause("spheropolyhedron_extreme_scale", _case3(8.0), _poly3, quick=1200, thorough=6000, rule="same with uniform scale 10^U(-8,8)", floors={}),
        Clause("spheropolygon_extreme_scale", _case2(8.0), _poly2, quick=1600, thorough=8000, rule="same with uniform scale 10^U(-8,6)", floors={}),
    ]


def selftest():
    geom.self_test()
    cube = np.array([[x, y, z] for x in (0, 1) for y in (0, 1) for z in (0, 1)], dtype=float)
    f, n, d, _ = geom.convex_facets(cube)
    assert abs(mean_curvature_oracle(cube, f, n) - 12 * (math.pi / 2) / (8 * math.pi)) < 1e-14
