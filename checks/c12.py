"""C12 - form factor amplitude is the Fourier transform of the shape."""
import math

import numpy as np
from hypothesis import strategies as st

from checks.common import S, Raised, call, diameter, get
from gen import curved, zoo
from gen import poly as gp
from gen.zoo import f, noise, unit
from harness.runner import EPS, Clause
from oracle import fourier, geom

RULE = ("Generated: Sphere (any centre), ConvexPolyhedron, Polyhedron (polycubes incl. non-convex, extrusions, star meshes), Polygon "
        "(both orientations, any normal argument, any plane), off-origin up to 5 diameters, sizes 10^+-1, density drawn; wave "
        "vectors with |q|*size in {0} U 10^U(-3, log10 30): random directions, exact face normals, exact edge-perpendicular "
        "directions, coordinate axes, approach sequences q -> 0 / -> a face normal; batches of 1..40 rows. Oracle: exact Fourier "
        "integral over tetrahedra/triangles by divided differences of exp (validated against the box closed form), closed form for "
        "the sphere. Also F(0)=volume/area, F(-q)=conj F(q), translation phase, density linearity, batch row = single-row call. "
        "Tolerance 1e-6*|F(0)| + 1e3*eps*|F(0)|/(|q|*size)^3. Non-trivial: |q|*size >= 1 with |F| >= 1e-3*F(0), or a special "
        "direction, or batch size 1, or a clockwise polygon.")
ASSUMPTIONS = ["accuracy requirement 1e-6 relative to F(0) plus the cancellation allowance of any Stokes-type evaluation at small |q|"]


@st.composite
def _qcase(draw):
    n = draw(st.sampled_from([1, 1, 2, 5, 16, 40]))
    return {"n": n, "nz": draw(noise(5 * n)), "density": draw(st.sampled_from([1.0, 1.0, 2.5, 0.3])),
            "qtype": draw(st.sampled_from(["float", "float", "float", "float", "int64", "int32"]))}


def build_q(qc, size, normals, edge_dirs):
    """(n,3) wave vectors; kinds: 0 generic, 1 zero, 2 along a face normal, 3 perpendicular to an edge, 4 axis, 5 near a face normal,
    6 huge normal component next to a modest in-plane part."""
    n = qc["n"]
    u = unit(qc["nz"]).reshape(n, 5)
    Q = np.zeros((n, 3))
    kinds = np.zeros(n, dtype=int)
    for i in range(n):
        mag = 10.0 ** (-3 + (math.log10(30) + 3) * u[i, 0]) / size
        d = 2 * u[i, 1:4] - 1
        if np.linalg.norm(d) < 1e-3:
            d = np.array([1.0, 0, 0])
        d /= np.linalg.norm(d)
        m = u[i, 4]
        if m < 0.08:
            kinds[i] = 1
            continue
        if m < 0.25 and len(normals):
            d = np.asarray(normals[int(u[i, 1] * len(normals)) % len(normals)], dtype=float)
            kinds[i] = 2
        elif m < 0.4 and len(edge_dirs):
            e = np.asarray(edge_dirs[int(u[i, 1] * len(edge_dirs)) % len(edge_dirs)], dtype=float)
            d = d - np.dot(d, e) * e / np.dot(e, e)
            if np.linalg.norm(d) < 1e-6:
                d = np.cross(e, [0.3, 0.5, 0.8])
            d /= np.linalg.norm(d)
            kinds[i] = 3
        elif m < 0.5:
            d = np.eye(3)[int(u[i, 1] * 3) % 3] * (1 if u[i, 2] < 0.5 else -1)
            kinds[i] = 4
        elif m < 0.62 and len(normals):
            nn = np.asarray(normals[int(u[i, 1] * len(normals)) % len(normals)], dtype=float)
            ang = 10.0 ** (-5 + 4 * u[i, 2])
            t = np.cross(nn, d)
            if np.linalg.norm(t) < 1e-6:
                t = np.cross(nn, [0.3, 0.5, 0.8])
            t /= np.linalg.norm(t)
            d = math.cos(ang) * nn + math.sin(ang) * t
            kinds[i] = 5
        elif m < 0.70 and len(normals):
            # a modest in-plane part next to a huge component along a face normal (|q.n| / |q_inplane| up to 1e7): for a
            # polygon only the in-plane part matters, and it must not be obtained as a difference of huge numbers
            nn = np.asarray(normals[int(u[i, 1] * len(normals)) % len(normals)], dtype=float)
            t = np.cross(nn, d)
            if np.linalg.norm(t) < 1e-6:
                t = np.cross(nn, [0.3, 0.5, 0.8])
            t /= np.linalg.norm(t)
            Q[i] = (10.0 ** (-2.5 + 3.0 * u[i, 2]) * t + 10.0 ** (2.0 + 2.5 * u[i, 3]) * nn) / size
            kinds[i] = 6
            continue
        Q[i] = mag * d
    if qc.get("qtype", "float") != "float":
        # integer-valued wave vectors (reciprocal-lattice indices), handed over as an integer ndarray (lists are not promised: Polyhedron multiplies q by itself)
        Q = np.round(Q) if size >= 1 else np.round(Q * size)
    return Q, kinds


def _thresholds(Q, normals):
    """Which of the implementation's absolute small-q tests fire for each q (used only to name buckets)."""
    q2 = np.einsum("ij,ij->i", Q, Q)
    zero = np.isclose(q2, 0)
    inpl = np.zeros(len(Q), dtype=bool)
    for nn in normals:
        qp = Q - (Q @ nn)[:, None] * nn[None, :]
        inpl |= np.isclose(np.einsum("ij,ij->i", qp, qp), 0)
    return zero, inpl & ~zero


def _known_defect_model(kindname, q, geomdata):
    """What the implementation returns *if only the two known absolute-threshold defects are at work* (used to
    name buckets precisely, so that anything else in the same small-q regime is still reported):
    zero test fires -> F(0) (times the positional phase for Sphere); in-plane test fires for a face -> that face's
    polygon transform is replaced by its bare area in the Stokes sum."""
    q = np.asarray(q, dtype=float)
    q2 = float(q @ q)
    if kindname == "Sphere":
        R, c = geomdata
        return 4 / 3 * np.pi * R**3 * np.exp(-1j * float(q @ c)) if np.isclose(q2, 0) else None
    if kindname == "Polygon":
        V, nrm, area = geomdata
        qp = q - (q @ nrm) * nrm
        return complex(area) if np.isclose(float(qp @ qp), 0) else None
    V, F = geomdata
    vol = geom.mesh_moments(V, F)["volume"]
    if np.isclose(q2, 0):
        return complex(vol)
    tot = 0j
    for f_ in F:
        nn = geom.newell_normal(V[f_])
        nn = nn / np.linalg.norm(nn)
        d = float(nn @ V[f_[0]])
        qp = q - (q @ nn) * nn
        if np.isclose(float(qp @ qp), 0):
            ff = geom.face_area_centroid(V[f_])[0]
        else:
            ff = fourier.ft_polygon(V[f_], nn, q[None, :])[0]
        tot += (q @ nn) * (1j * ff * np.exp(-1j * (q @ nn) * d)) / q2
    return tot


def _compare(rec, shape, Q, kinds, exact, F0, size, normals, sig, density, is_polygon=False, model_data=None, qtype="float"):
    n = len(Q)
    arg = Q.copy()
    if qtype in ("int64", "int32"):
        arg = Q.astype(getattr(np, qtype))
    elif qtype == "intlist":
        arg = [[int(x) for x in row] for row in Q]
    if qtype != "float":
        sig = dict(sig, q_as=qtype)
        rec.label("q_as:" + qtype)
    got = call(shape.compute_form_factor_amplitude, arg) if density == 1.0 else call(shape.compute_form_factor_amplitude, arg, density)
    if isinstance(got, Raised):
        rec.fail("form_factor_raised", dict(sig, type=got.type, batch="1" if n == 1 else "n"), msg=got.msg)
        return None
    got = np.asarray(got)
    rec.check(np.array_equal(np.asarray(arg), Q), "argument_unchanged", sig)
    if not rec.check(got.shape == (n,), "shape", sig, got=list(got.shape)):
        return None
    want = density * exact
    qs = np.linalg.norm(Q, axis=1) * size
    with np.errstate(divide="ignore"):
        tol = density * abs(F0) * (1e-6 + np.where(qs > 0, 1e3 * EPS / np.maximum(qs, 1e-300) ** 3, 0.0))
    err = np.abs(got - want)
    bad = ~(err <= tol)
    zero, inpl = _thresholds(Q, normals)
    seen = set()
    for i in np.nonzero(bad)[0]:
        thr = "zero_q_sq_below_1e-8" if zero[i] and qs[i] > 0 else ("inplane_q_sq_below_1e-8" if inpl[i] else "none")
        if thr != "none" and model_data is not None:
            mdl = _known_defect_model(sig["cls"] if sig["cls"] in ("Sphere", "Polygon") else "Solid", Q[i], model_data)
            if mdl is None or abs(got[i] - density * mdl) > density * abs(F0) * 1e-7 + tol[i]:
                thr = "none"  # in the small-q regime, but NOT what the known defects produce
        key = (thr, int(kinds[i]))
        if key in seen:
            continue
        seen.add(key)
        rec.fail("fourier_transform", dict(sig, absolute_threshold=thr), q=Q[i], q_size=float(qs[i]), got=got[i], want=want[i],
                 err_over_F0=float(err[i] / abs(density * F0)), qkind=int(kinds[i]))
    rec.asserts += n
    if not bad.any():
        with np.errstate(divide="ignore", invalid="ignore"):
            rec.ratios["fourier_transform"] = max(rec.ratios.get("fourier_transform", 0.0), float(np.max(err / tol)))
    return got


def _relations(rec, shape, Q, got, F0, size, sig, density, move=None, normals=()):
    """Metamorphic relations on the implementation itself."""
    if got is None:
        return
    n = len(Q)
    tolr = 1e-6 * abs(F0) * density
    qs = np.linalg.norm(Q, axis=1) * size
    zero, inpl = _thresholds(Q, normals)
    # relations are asserted where the evaluation is well conditioned and none of the implementation's
    # absolute small-q tests fires (those rows belong to the known findings)
    ok_rows = (qs >= 0.05) & ~zero & ~inpl
    if not ok_rows.any():
        return
    neg = call(shape.compute_form_factor_amplitude, -Q) if density == 1.0 else call(shape.compute_form_factor_amplitude, -Q, density)
    if not isinstance(neg, Raised):
        rec.close("F_minus_q_is_conjugate", np.asarray(neg)[ok_rows], np.conj(got)[ok_rows], tolr, sig)
    i = int(np.argmax(ok_rows))
    one = call(shape.compute_form_factor_amplitude, Q[i:i + 1].copy()) if density == 1.0 else call(shape.compute_form_factor_amplitude, Q[i:i + 1].copy(), density)
    if isinstance(one, Raised):
        rec.fail("single_row_call_raised", dict(sig, type=one.type), msg=one.msg)
    else:
        rec.close("batch_row_equals_single_call", np.asarray(one), got[i:i + 1], 1e-12 * abs(F0) * density + 1e-9 * abs(got[i]), sig)
    if density != 1.0:
        base = call(shape.compute_form_factor_amplitude, Q.copy())
        if not isinstance(base, Raised):
            rec.close("density_linear", got[ok_rows], density * np.asarray(base)[ok_rows], 1e-12 * abs(F0) * density, sig)
    if move is not None:
        t, moved = move
        g2 = call(moved.compute_form_factor_amplitude, Q.copy()) if density == 1.0 else call(moved.compute_form_factor_amplitude, Q.copy(), density)
        if isinstance(g2, Raised):
            rec.fail("form_factor_raised", dict(sig, type=g2.type, moved="yes"), msg=g2.msg)
        else:
            rec.close("translation_phase", np.asarray(g2)[ok_rows], (np.exp(-1j * (Q @ t)) * got)[ok_rows], 2 * tolr, sig)


@st.composite
def _solid_case(draw, convex_cls):
    c = {"q": draw(_qcase()), "place": draw(zoo.placement(max_offset=5.0, scale_decades=1.0)), "t": [draw(f(-3, 3)) for _ in range(3)]}
    c["shape"] = draw(zoo.convex3d(max_n=14)) if convex_cls else draw(zoo.mesh3d(max_n=10, kinds=("voxel", "voxel", "extrusion", "star")))
    return c


def _solid(case, rec, convex_cls):
    if convex_cls:
        V0 = zoo.build_convex(case["shape"])["verts"]
        V, R, t, s = zoo.apply_placement(case["place"], V0)
        F = [list(map(int, f_)) for f_ in geom.convex_facets(V)[0]]
        shape = call(S.ConvexPolyhedron, V.copy())
    else:
        m = zoo.build_mesh(case["shape"])
        V, R, t, s = zoo.apply_placement(case["place"], m["verts"])
        F = [list(map(int, f_)) for f_ in m["faces"]]
        shape = call(S.Polyhedron, V.copy(), [np.array(f_) for f_ in F], True)
    sig = {"cls": "ConvexPolyhedron" if convex_cls else "Polyhedron"}
    if isinstance(shape, Raised):
        rec.fail("construct", dict(sig, type=shape.type), msg=shape.msg)
        return
    size = diameter(V)
    normals = []
    for f_ in F:
        nn = geom.newell_normal(V[f_])
        normals.append(nn / np.linalg.norm(nn))
    edges = [V[b] - V[a] for f_ in F for a, b in zip(f_, f_[1:] + f_[:1])][:40]
    Q, kinds = build_q(case["q"], size, normals, edges)
    exact = fourier.ft_mesh(V, F, Q)
    vol = geom.mesh_moments(V, F)["volume"]
    dens = case["q"]["density"]
    rec.concrete = {"vertices": V, "faces": F, "q": Q[:4]}
    got = _compare(rec, shape, Q, kinds, exact, vol, size, normals, sig, dens, model_data=(V, F), qtype=case["q"].get("qtype", "float"))
    tvec = np.asarray(case["t"]) * size
    moved = call(S.ConvexPolyhedron, V + tvec) if convex_cls else call(S.Polyhedron, V + tvec, [np.array(f_) for f_ in F], True)
    _relations(rec, shape, Q, got, vol, size, sig, dens, None if isinstance(moved, Raised) else (tvec, moved), normals)
    qs = np.linalg.norm(Q, axis=1) * size
    strong = bool(np.any((qs >= 1) & (np.abs(exact) >= 1e-3 * vol)))
    rec.label(sig["cls"], "batch1" if len(Q) == 1 else None, "special_direction" if np.any(kinds >= 2) else None, "q_size>=1" if strong else None,
              "zero_q" if np.any(kinds == 1) else None, "small_q" if np.any((qs > 0) & (qs < 0.05)) else None,
              "kind:" + case["shape"]["kind"])
    rec.nontrivial = strong or bool(np.any(kinds >= 2)) or len(Q) == 1


@st.composite
def _poly_case(draw):
    return {"q": draw(_qcase()), "poly": draw(gp.simple_polygon(max_n=14)), "emb": draw(gp.embedding()), "t": [draw(f(-3, 3)) for _ in range(3)]}


def _polygon(case, rec):
    xy = gp.build_polygon_xy(case["poly"])
    em = gp.embed(xy, case["emb"])
    V, arg = em["verts"], em["normal_arg"]
    kw = {} if arg is None else {"normal": arg.copy() if isinstance(arg, np.ndarray) else arg}
    shape = call(S.Polygon, V.copy(), **kw)
    sig = {"cls": "Polygon"}
    if isinstance(shape, Raised):
        rec.fail("construct", dict(sig, type=shape.type), msg=shape.msg)
        return
    nrm = np.asarray(shape.normal, dtype=float)
    o = geom.polygon_moments(V, nrm)
    cw = o["signed_area"] < 0
    sig["orient"] = "cw_about_normal" if cw else "ccw_about_normal"
    size = diameter(V)
    edges = [V[(i + 1) % len(V)] - V[i] for i in range(len(V))]
    Q, kinds = build_q(case["q"], size, [nrm], edges)
    # in-plane special directions: rotate 'along the normal' rows into the plane half of the time
    exact = fourier.ft_polygon(V, nrm, Q)
    dens = case["q"]["density"]
    rec.concrete = {"vertices": V, "normal": list(map(float, nrm)), "q": Q[:4]}
    got = _compare(rec, shape, Q, kinds, exact, o["area"], size, [nrm], sig, dens, True, model_data=(V, nrm, o["area"]), qtype=case["q"].get("qtype", "float"))
    tvec = np.asarray(case["t"]) * size
    moved = call(S.Polygon, V + tvec, **({} if arg is None else {"normal": arg}))
    # a translation changes the phase only through its in-plane part
    tin = tvec - np.dot(tvec, nrm) * nrm
    _relations(rec, shape, Q, got, o["area"], size, sig, dens, None if isinstance(moved, Raised) else (tin, moved), [nrm])
    qs = np.linalg.norm(Q - (Q @ nrm)[:, None] * nrm[None, :], axis=1) * size
    strong = bool(np.any((qs >= 1) & (np.abs(exact) >= 1e-3 * o["area"])))
    rec.label("Polygon", sig["orient"], "batch1" if len(Q) == 1 else None, "q_size>=1" if strong else None,
              "tilted" if case["emb"]["place"] is not None else "inplane")
    rec.nontrivial = strong or cw or len(Q) == 1


@st.composite
def _sphere_case(draw):
    return {"q": draw(_qcase()), "axes": draw(curved.axes(1, decades=2.0)), "centre": draw(curved.centre()), "t": [draw(f(-3, 3)) for _ in range(3)]}


def _sphere(case, rec):
    R = case["axes"]["axes"][0]
    cen = curved.make_centre(case["centre"], R)
    c = np.asarray(cen, dtype=float)
    shape = call(S.Sphere, R, cen)
    sig = {"cls": "Sphere"}
    if isinstance(shape, Raised):
        rec.fail("construct", dict(sig, type=shape.type), msg=shape.msg)
        return
    Q, kinds = build_q(case["q"], 2 * R, [], [])
    exact = fourier.ft_sphere(R, c, Q)
    vol = 4 / 3 * np.pi * R**3
    dens = case["q"]["density"]
    rec.concrete = {"radius": R, "centre": c, "q": Q[:4]}
    got = _compare(rec, shape, Q, kinds, exact, vol, 2 * R, [], sig, dens, model_data=(R, c), qtype=case["q"].get("qtype", "float"))
    tvec = np.asarray(case["t"]) * R
    moved = call(S.Sphere, R, c + tvec)
    _relations(rec, shape, Q, got, vol, 2 * R, sig, dens, None if isinstance(moved, Raised) else (tvec, moved))
    rec.label("Sphere", "batch1" if len(Q) == 1 else None, "centre:" + case["centre"]["kind"])
    rec.nontrivial = True


def clauses():
    return [
        Clause("convex_polyhedron", _solid_case(True), lambda c, r: _solid(c, r, True), quick=640, thorough=4000, rule="ConvexPolyhedron",
               floors={"batch1": 0.1, "special_direction": 0.3, "q_size>=1": 0.2}),
        Clause("polyhedron", _solid_case(False), lambda c, r: _solid(c, r, False), quick=520, thorough=3000, rule="Polyhedron incl. non-convex",
               floors={"batch1": 0.1, "special_direction": 0.3}),
        Clause("polygon", _poly_case(), _polygon, quick=2000, thorough=12000, rule="Polygon", floors={"cw_about_normal": 0.2, "batch1": 0.1, "tilted": 0.3}),
        Clause("sphere", _sphere_case(), _sphere, quick=1600, thorough=8000, rule="Sphere", floors={"batch1": 0.1}),
    ]


def selftest():
    fourier.self_test()
