"""C07 - face, normal, neighbour and edge structure of polyhedra is consistent."""
import math

import numpy as np
from hypothesis import strategies as st

from checks.common import (S, Raised, call, coplanarity_ambiguous, cyc_equal, diameter, face_key, get, maxnorm,
                           perm_from_noise)
from gen import zoo
from gen.zoo import unit
from harness.runner import EPS, Clause
from oracle import geom

RULE = ("Generated: convex vertex sets of the zoo in drawn vertex order (ConvexPolyhedron); Polyhedron inputs derived from the "
        "brute-force facets by per-face vertex shuffles/reversals (then sort_faces) and by fan triangulation of every facet "
        "with optional mixed winding (then merge_faces); rigid placement, scale 10^+-1. Oracle: facets = maximal coplanar "
        "supporting sets from all vertex triples, cyclic order by angle in a harness frame, neighbours = share an edge. "
        "Non-trivial: a facet with >=4 vertices, or a shuffled face, or a triangulated input.")
ASSUMPTIONS = ["inputs whose coplanarity is ambiguous (a vertex between 1e-12 and 1e-6 diameters off a facet plane) are counted but "
               "their face partition is not asserted"]


@st.composite
def _case(draw, max_n=24, far=False):
    return {"cvx": draw(zoo.convex3d(max_n=max_n, kinds=("ellipsoid", "lattice", "prismatoid", "tabulated", "roofed"))),
            "place": draw(zoo.placement(max_offset=5.0, scale_decades=1.0)),
            "far": draw(st.sampled_from([3.0, 4.0, 5.0, 5.5, 6.0, 6.5])) if far else None,
            "perm": draw(zoo.noise(64)), "fperm": draw(zoo.noise(200)), "mode": draw(st.sampled_from(["shuffle", "reverse", "keep"])),
            "mixed": draw(st.booleans()),
            "fdtype": draw(st.sampled_from(["int64", "int64", "list", "int32", "uint8", "uint32", "uint64"]))}


def _faces_as(T, fdtype):
    """Face lists in the container a caller may use (mesh readers hand out unsigned index arrays)."""
    if fdtype == "list":
        return [list(map(int, f)) for f in T]
    return [np.array(f, dtype=getattr(np, fdtype)) for f in T]


def _far(V, case):
    """Optionally move the shape 10^k diameters away from the origin (the structure must not depend on position)."""
    if not case.get("far"):
        return V
    size = 2 * float(np.max(np.linalg.norm(V - V.mean(axis=0), axis=1)))
    d = np.array([0.6, -0.64, 0.48])
    return V + 10.0 ** case["far"] * size * d


def _oracle(V):
    facets, nrm, off, _ = geom.convex_facets(V)
    edges = set()
    nb = {i: set() for i in range(len(facets))}
    owner = {}
    for i, fc in enumerate(facets):
        for a, b in zip(fc, fc[1:] + fc[:1]):
            e = (min(a, b), max(a, b))
            edges.add(e)
            if e in owner:
                nb[i].add(owner[e])
                nb[owner[e]].add(i)
            else:
                owner[e] = i
    return facets, nrm, off, edges, nb


def _check_structure(rec, P, V, facets, nrm, off, edges, nb, sig, ambiguous, convex_cls):
    """All structural observables of polyhedron P against the oracle."""
    D = diameter(V)
    L = maxnorm(V)
    tolp = 1e4 * EPS * L  # point-on-plane tolerance
    ofaces = {face_key(fc): fc for fc in facets}
    pf = [[int(i) for i in fc] for fc in P.faces]
    keys = [face_key(fc) for fc in pf]
    same = set(keys) == set(ofaces) and len(keys) == len(ofaces)
    if ambiguous:
        rec.label("ambiguous_coplanarity")
        if not same:
            return
    if not rec.check(same, "faces_are_hull_facets", sig, got=[sorted(k) for k in keys][:6], want=[sorted(k) for k in ofaces][:6]):
        return
    rec.check(get(P, "num_faces") == len(facets) and get(P, "num_vertices") == len(V), "counts", sig)
    idx = {k: i for i, k in enumerate(face_key(fc) for fc in facets)}
    omap = [idx[k] for k in keys]  # impl face -> oracle facet
    for i, fc in enumerate(pf):
        rec.check(cyc_equal(fc, ofaces[keys[i]]), "face_ccw_from_outside", sig, got=fc, want=ofaces[keys[i]])
    eq = get(P, "equations") if convex_cls else call(lambda: P._equations)
    normals = get(P, "normals")
    if isinstance(eq, Raised) or isinstance(normals, Raised):
        rec.fail("equations", dict(sig, type="Raised"), msg=repr(eq)[:100])
        return
    eq = np.asarray(eq, dtype=float)
    rec.check(np.array_equal(np.asarray(normals), eq[:, :3]), "normals_are_equation_normals", sig)
    rec.close("unit_normals", np.linalg.norm(eq[:, :3], axis=1), 1.0, 1e-12, sig)
    # a normal computed from three vertices at distance L carries an error of about eps*L/D; the plane offset
    # (a dot product with a position) inherits L times that
    tol_n = 1e-9 + 1e3 * EPS * L / D
    rec.close("normals_outward", eq[:, :3], nrm[omap], tol_n, sig)
    rec.close("offsets", -eq[:, 3], off[omap], tol_n * L + tolp, sig)
    dist = V @ eq[:, :3].T + eq[:, 3][None, :]
    for i, fc in enumerate(pf):
        on = np.zeros(len(V), dtype=bool)
        on[fc] = True
        rec.check(np.all(np.abs(dist[on, i]) <= 1e-9 * D + tolp), "face_vertices_on_plane", sig, face=fc)
        rec.check(np.all(dist[~on, i] < 0), "other_vertices_inside", sig, face=fc, worst=float(dist[~on, i].max()))
    # neighbours
    nbs = get(P, "neighbors")
    gotnb = [set(int(j) for j in a) for a in nbs]
    rec.check(all((i in gotnb[j]) for i in range(len(gotnb)) for j in gotnb[i]), "neighbors_symmetric", sig)
    wantnb = [set() for _ in pf]
    inv = {o: i for i, o in enumerate(omap)}
    for o, s_ in nb.items():
        wantnb[inv[o]] = {inv[t] for t in s_}
    rec.check(gotnb == wantnb, "neighbors_share_an_edge", sig)
    rec.check(all(len(a) == len(set(map(int, a))) for a in nbs), "neighbors_unique", sig)
    # edges
    E = get(P, "edges")
    if isinstance(E, Raised):
        rec.fail("edges", dict(sig, type=E.type), msg=E.msg)
    else:
        E = np.asarray(E)
        el = [tuple(map(int, e)) for e in E]
        rec.check(all(a < b for a, b in el), "edges_i_lt_j", sig)
        rec.check(el == sorted(el), "edges_sorted", sig)
        rec.check(len(set(el)) == len(el) and set(el) == edges, "edges_each_once", sig, n=len(el), want=len(edges))
        ne = get(P, "num_edges")
        rec.check(ne == len(el), "num_edges_agrees", sig, num_edges=ne, len_edges=len(el))
        rec.check(len(V) - len(edges) + len(facets) == 2 and ne == len(edges), "euler", sig)
        ev = get(P, "edge_vectors")
        rec.close("edge_vectors", ev, V[E[:, 1]] - V[E[:, 0]], 0.0, sig)
        rec.close("edge_lengths", get(P, "edge_lengths"), np.linalg.norm(V[E[:, 1]] - V[E[:, 0]], axis=1), 1e3 * EPS * L, sig)
    # dihedrals
    pairs = [(i, j) for i in range(len(pf)) for j in sorted(wantnb[i]) if i < j][:12]
    for i, j in pairs:
        a, b = nrm[omap[i]], nrm[omap[j]]
        ang = math.atan2(np.linalg.norm(np.cross(a, b)), float(np.dot(a, b)))
        rec.close("dihedral", call(P.get_dihedral, i, j), math.pi - ang, 1e-7, sig)
    non = [(i, j) for i in range(len(pf)) for j in range(len(pf)) if i != j and j not in wantnb[i]][:2]
    for i, j in non:
        r = call(P.get_dihedral, i, j)
        rec.check(isinstance(r, Raised) and r.type == "ValueError", "dihedral_non_neighbours_raise", sig, got=repr(r)[:80])
    if convex_cls:
        sim = np.asarray(get(P, "simplices"))
        areas = {k: 0.0 for k in keys}
        signs = set()
        oksub = True
        for tri in sim:
            t = [int(x) for x in tri]
            home = [k for k in keys if set(t) <= k]
            if not home:
                oksub = False
                continue
            k = home[0]
            cr = np.cross(V[t[1]] - V[t[0]], V[t[2]] - V[t[0]])
            areas[k] += 0.5 * np.linalg.norm(cr)
            signs.add(bool(np.dot(cr, nrm[idx[k]]) > 0))
        rec.check(oksub, "simplices_within_faces", sig)
        # the property asks that the simplices triangulate the faces; that they are wound alike (so that signed sums over
        # them mean something) is checked, which way round is not promised anywhere (the class picks it from the sign of
        # an origin-based volume, which is rounding noise beyond ~1e5 diameters from the origin)
        rec.check(len(signs) <= 1, "simplices_wound_alike", sig)
        if signs == {False}:
            rec.label("simplices_all_inward")
        want = [geom.face_area_centroid(V[ofaces[k]])[0] for k in keys]
        rec.close("simplices_tile_faces", [areas[k] for k in keys], want, 1e4 * EPS * L * L * len(V), sig)


def _convex(case, rec):
    c = zoo.build_convex(case["cvx"])
    V, R, t, s = zoo.apply_placement(case["place"], c["verts"])
    V = _far(V, case)
    V = V[perm_from_noise(case["perm"], len(V))]
    facets, nrm, off, edges, nb = _oracle(V)
    amb = coplanarity_ambiguous(V, facets, nrm, off)
    sig = {"cls": "ConvexPolyhedron", "kind": case["cvx"]["kind"]}
    rec.concrete = {"vertices": V}
    P = call(S.ConvexPolyhedron, V.copy())
    if isinstance(P, Raised):
        rec.fail("construct", dict(sig, type=P.type), msg=P.msg)
        return
    maxdeg = max(len(f) for f in facets)
    rec.label("kind:" + case["cvx"]["kind"], "nontriangular" if maxdeg > 3 else "alltriangles")
    rec.nontrivial = maxdeg > 3
    _check_structure(rec, P, V, facets, nrm, off, edges, nb, sig, amb, True)


def _shuffled_faces(facets, nz, mode):
    u = list(nz)
    out = []
    pos = 0
    for fc in facets:
        k = len(fc)
        if mode == "keep":
            out.append(list(fc))
        elif mode == "reverse":
            r = u[pos % len(u)] % k
            g = fc[r:] + fc[:r]
            out.append(g[::-1] if u[(pos + 1) % len(u)] % 2 else g)
        else:
            p = perm_from_noise([u[(pos + i) % len(u)] for i in range(k)], k)
            out.append([fc[i] for i in p])
        pos += k
    return out


def _sort(case, rec):
    c = zoo.build_convex(case["cvx"])
    V, R, t, s = zoo.apply_placement(case["place"], c["verts"])
    V = _far(V, case)
    facets, nrm, off, edges, nb = _oracle(V)
    amb = coplanarity_ambiguous(V, facets, nrm, off)
    F = _shuffled_faces(facets, case["fperm"], case["mode"])
    sig = {"cls": "Polyhedron", "op": "sort_faces", "mode": case["mode"]}
    rec.concrete = {"vertices": V, "faces": F}
    P = call(S.Polyhedron, V.copy(), _faces_as(F, case.get("fdtype", "int64")), True)
    if isinstance(P, Raised):
        rec.fail("construct", dict(sig, type=P.type), msg=P.msg)
        return
    r = call(P.sort_faces)
    if isinstance(r, Raised):
        rec.fail("sort_faces", dict(sig, type=r.type), msg=r.msg)
        return
    changed = any(not cyc_equal(a, b) for a, b in zip(F, facets))
    rec.label("mode:" + case["mode"], "faces_disordered" if changed else None, "kind:" + case["cvx"]["kind"], "faces_as:" + case.get("fdtype", "int64"))
    rec.nontrivial = changed
    _check_structure(rec, P, V, facets, nrm, off, edges, nb, sig, amb, False)


def _merge(case, rec):
    c = zoo.build_convex(case["cvx"])
    V, R, t, s = zoo.apply_placement(case["place"], c["verts"])
    V = _far(V, case)
    facets, nrm, off, edges, nb = _oracle(V)
    # merge_faces documents its notion of coplanar: numpy.allclose on the plane equations with rtol=1e-5, i.e. unit
    # normals up to 1e-5 apart. A vertex up to ~1e-5 diameters off a neighbouring facet plane (data tabulated with six
    # digits) may therefore legitimately be merged or not: the band in which the case is not judged follows that
    amb = coplanarity_ambiguous(V, facets, nrm, off, hi=1e-4)
    if case.get("far"):
        # ... and its tolerance on the plane offset is 1e-8 + 1e-5*|d|. Far from the origin two triangles of one facet
        # get offsets differing by about eps*L^2/edge; for a facet whose plane passes near the origin (small |d|) that
        # noise can exceed the documented tolerance, and leaving the facet split is then what the documentation says
        Lf = maxnorm(V)
        emin = min(float(np.linalg.norm(V[a] - V[b])) for fc in facets for a, b in zip(fc, fc[1:] + fc[:1]))
        if any(64 * 2.0**-52 * Lf * Lf / emin > 1e-8 + 1e-5 * abs(float(d_)) for d_ in off):
            amb = True
            rec.label("offset_noise_above_documented_tolerance")
    u = list(case["fperm"])
    T = []
    pos = 0
    for fc in facets:
        r = u[pos % len(u)] % len(fc)
        g = fc[r:] + fc[:r]  # fan apex drawn
        for i in range(1, len(g) - 1):
            tri = [g[0], g[i], g[i + 1]]
            if case["mixed"] and u[(pos + i) % len(u)] % 2:
                tri = tri[::-1]
            T.append(tri)
        pos += len(fc)
    sig = {"cls": "Polyhedron", "op": "merge_faces", "winding": "mixed" if case["mixed"] else "consistent"}
    rec.concrete = {"vertices": V, "faces": T}
    P = call(S.Polyhedron, V.copy(), _faces_as(T, case.get("fdtype", "int64")))
    if isinstance(P, Raised):
        rec.fail("construct", dict(sig, type=P.type), msg=P.msg)
        return
    r = call(P.merge_faces)
    if isinstance(r, Raised):
        rec.fail("merge_faces", dict(sig, type=r.type), msg=r.msg)
        return
    maxdeg = max(len(f) for f in facets)
    rec.label("winding:" + sig["winding"], "nontriangular" if maxdeg > 3 else "alltriangles", "kind:" + case["cvx"]["kind"],
              "faces_as:" + case.get("fdtype", "int64"))
    rec.nontrivial = maxdeg > 3
    _check_structure(rec, P, V, facets, nrm, off, edges, nb, sig, amb, False)


def _merge_tol(case, rec):
    """merge_faces(atol, rtol): the documented criterion (numpy.allclose on the plane equations of neighbouring faces)
    with non-default tolerances. The vertices are jittered by 1e-7 diameters, so that the triangles of one facet differ
    by ~1e-6 in their equations: far beyond the default atol, far within atol = rtol = 1e-3, while distinct neighbouring
    facets of the drawn solids differ by more than 0.05 in some component."""
    c = zoo.build_convex(case["cvx"])
    V, R, t, s = zoo.apply_placement(dict(case["place"], tmag=0.0), c["verts"])
    V = V - geom.mesh_moments(V, geom.convex_facets(V)[0])["centroid"]  # origin well inside: every plane offset is sizeable
    facets, nrm, off, edges, nb = _oracle(V)
    D = diameter(V)
    sig = {"cls": "Polyhedron", "op": "merge_faces(atol,rtol)", "args": "keywords" if case["mixed"] else "positional"}
    if float(np.min(np.abs(off))) < 0.1 * D:
        # the merged faces are rebuilt as polygons, whose planarity test allows 1e-8 + 1e-5*|d|: the jitter below must fit
        rec.label("outside_domain:face_plane_near_origin")
        return
    for i, js in nb.items():
        for j in js:
            if np.max(np.abs(nrm[i] - nrm[j])) < 0.05 and abs(off[i] - off[j]) < 0.05 * max(1.0, abs(off[i])):
                rec.label("outside_domain:flat_dihedral")
                return
    emin = min(float(np.linalg.norm(V[a] - V[b])) for a, b in edges)
    if emin < 0.02 * D or maxnorm(V) > 50:
        rec.label("outside_domain:short_edges_or_large")
        return
    u = unit(case["perm"])
    J = np.stack([np.cos(7.0 * np.arange(len(V)) + 6.28 * u[0]), np.sin(3.0 * np.arange(len(V)) + 6.28 * u[1]), np.cos(5.0 * np.arange(len(V)) + 1.0)], axis=1)
    W = V + 1e-7 * D * J
    T = [[fc[0], fc[i], fc[i + 1]] for fc in facets for i in range(1, len(fc) - 1)]
    rec.concrete = {"vertices": W, "faces": T}
    P = call(S.Polyhedron, W.copy(), _faces_as(T, case.get("fdtype", "int64")))
    if isinstance(P, Raised):
        rec.fail("construct", dict(sig, type=P.type), msg=P.msg)
        return
    r = call(P.merge_faces, atol=1e-3, rtol=1e-3) if case["mixed"] else call(P.merge_faces, 1e-3, 1e-3)
    if isinstance(r, Raised):
        rec.fail("merge_faces", dict(sig, type=r.type), msg=r.msg)
        return
    maxdeg = max(len(f) for f in facets)
    axis = bool(np.any(np.abs(nrm) < 1e-6))
    rec.label("nontriangular" if maxdeg > 3 else "alltriangles", "kind:" + case["cvx"]["kind"], "args:" + sig["args"],
              "axis_aligned_normals" if axis else None)
    rec.nontrivial = maxdeg > 3
    got = {face_key([int(i) for i in fc]) for fc in P.faces}
    want = {face_key(fc) for fc in facets}
    rec.check(got == want and len(P.faces) == len(facets), "faces_are_hull_facets", sig, got=[sorted(k) for k in got][:6], want=[sorted(k) for k in want][:6])


def clauses():
    return [
        Clause("convex_structure", _case(), _convex, quick=1500, thorough=12000, rule="ConvexPolyhedron", floors={"nontriangular": 0.3}),
        Clause("sort_faces", _case(14), _sort, quick=750, thorough=6000, rule="Polyhedron.sort_faces", floors={"faces_disordered": 0.2}),
        Clause("merge_faces", _case(14), _merge, quick=750, thorough=6000, rule="Polyhedron.merge_faces",
               floors={"nontriangular": 0.3, "winding:mixed": 0.25}),
        Clause("merge_faces_with_tolerances", _case(14), _merge_tol, quick=500, thorough=4000,
               rule="merge_faces(atol=1e-3, rtol=1e-3) on triangulated facets of solids jittered by 1e-7 diameters", floors={"nontriangular": 0.15, "axis_aligned_normals": 0.05}),
        Clause("sort_faces_far_from_origin", _case(12, True), _sort, quick=600, thorough=4000,
               rule="sort_faces on shapes 1e3..3e6 diameters away from the origin", floors={}),
        Clause("merge_faces_far_from_origin", _case(12, True), _merge, quick=600, thorough=4000,
               rule="merge_faces on shapes 1e3..3e6 diameters away from the origin", floors={}),
        Clause("convex_structure_far_from_origin", _case(14, True), _convex, quick=600, thorough=4000,
               rule="ConvexPolyhedron 1e3..3e6 diameters away from the origin", floors={}),
    ]


def selftest():
    geom.self_test()
