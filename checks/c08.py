"""C08 - size setters hit their target by pure similarity; bad targets are refused."""
import copy
import random

import numpy as np
from hypothesis import strategies as st

from checks import observe
from checks.c03 import fresh
from checks.common import S, Raised, call, maxnorm, polygon_is_convex_ccw
from gen import curved, zoo
from gen import poly as gp
from harness.runner import Clause
from oracle import balls

RULE = ("Generated: base shapes of all ten classes in general position (zoo solids incl. cyclic/tangential tabulated ones, "
        "polygons in any plane, curved shapes with any centre); the settable properties are enumerated by reflection "
        "(a property is in the domain iff it has a setter and its getter returns a finite positive number, or a point for "
        "centroid/center, on that shape); targets 10^U(-3,3) x current; bad targets 0, -x, nan, -0.0, -inf. Oracle: read-back "
        "(exact minimal ball for miniball-derived radii); new defining data = lambda*old + t with one lambda = "
        "(target/current)^(1/d) > 0 (no rotation/reflection; rounding radius scaled too); dimensionless descriptors "
        "unchanged; all observables equal those of a fresh shape; centroid/center: pure translation; shape parameters "
        "(Ellipse.a/b, Ellipsoid.a/b/c, rounding radius): read-back and others untouched. Non-trivial: every "
        "(class, property) pair with |log10(target/current)| >= 0.5.")
ASSUMPTIONS = ["similarity tolerance 1e-12 relative to the shape's largest vertex norm", "read-back tolerance 1e-12 relative (1e-5 via exact min-ball for miniball radii)"]

PARAMS = {"a", "b", "c"}  # shape parameters that are not size-like by their own documentation
KINDS = ["ConvexPolyhedron", "Polyhedron", "ConvexSpheropolyhedron", "Polygon", "ConvexPolygon", "ConvexSpheropolygon", "Circle",
         "Ellipse", "Sphere", "Ellipsoid"]
BAD = [0.0, -1.0, float("nan"), -0.0, float("-inf")]


@st.composite
def _case(draw, kind=None):
    kind = kind or draw(st.sampled_from(KINDS))
    cls = getattr(S, kind)
    props = observe.settable_properties(cls)
    # the factor between the current and the assigned value: any decade, and (a quarter of the cases) a hair's breadth
    # from 1 - a setter must not treat "almost the current value" as "nothing to do"
    logm = draw(zoo.f(-3, 3)) if draw(st.integers(0, 3)) else draw(st.sampled_from([4.3429e-4, -4.3429e-4, 4.3429e-6, -4.3429e-6, 4.3429e-7,
                                                                                        -4.3429e-7, 4.3429e-9, 4.3429e-11]))
    c = {"kind": kind, "prop": draw(st.sampled_from(props)), "logm": logm, "bad": draw(st.integers(0, len(BAD) - 1)),
         "radius": draw(zoo.f(-2, 0.5)), "centre_to": [draw(zoo.f(-10, 10)) for _ in range(3)]}
    c["xs"] = draw(st.sampled_from([0.0, 0.0, 0.0, 0.0, -3.0, -6.0, 3.0]))  # length units (vertex shapes)
    if kind in ("ConvexPolyhedron", "Polyhedron", "ConvexSpheropolyhedron"):
        c["cvx"] = draw(zoo.convex3d(max_n=14))
        c["place"] = draw(zoo.placement(max_offset=4.0))
    elif kind in ("Polygon", "ConvexPolygon", "ConvexSpheropolygon"):
        kinds = ("convex",) if kind != "Polygon" else ("star", "comb", "lattice", "convex", "untangled")
        c["poly"] = draw(gp.simple_polygon(max_n=10, kinds=kinds))
        c["emb"] = draw(gp.embedding())
    else:
        k = {"Circle": 1, "Sphere": 1, "Ellipse": 2, "Ellipsoid": 3}[kind]
        c["axes"] = draw(curved.axes(k, decades=2.0))
        c["centre"] = draw(curved.centre(dim3=kind in ("Sphere", "Ellipsoid")))
    return c


def build(case):
    kind = case["kind"]
    if "cvx" in case:
        V, _, _, _ = zoo.apply_placement(case["place"], zoo.build_convex(case["cvx"])["verts"])
        V = V * 10.0 ** case.get("xs", 0.0)  # optional extreme uniform scale (length units of 1e-9 .. 1e6)
        size = 2 * float(np.max(np.linalg.norm(V - V.mean(axis=0), axis=1)))
        if case.get("nudge"):
            # almost - but not quite - centred on the origin: centroid a few 1e-9 sizes away ("is it at the origin?"
            # tests with an absolute tolerance must not take it for centred)
            from oracle import geom

            V = V - geom.mesh_moments(V, geom.convex_facets(V)[0])["centroid"] + case["nudge"] * size * np.array([3.0, -2.0, 1.0])
        r = 10.0 ** case["radius"] * size
        if kind == "ConvexPolyhedron":
            return S.ConvexPolyhedron(V.copy())
        if kind == "Polyhedron":
            from oracle import geom

            return S.Polyhedron(V.copy(), [np.array(f) for f in geom.convex_facets(V)[0]], True)
        return S.ConvexSpheropolyhedron(V.copy(), r)
    if "poly" in case:
        xy = gp.build_polygon_xy(case["poly"])
        em = gp.embed(xy, case["emb"])
        xs = case.get("xs", 0.0)
        if xs > 5.0 and case["emb"]["place"] is not None:
            xs = 5.0  # tilted planes only up to 1e5 (Polygon's documented planarity tolerance, see C04)
        V, arg = em["verts"] * 10.0 ** xs, em["normal_arg"]
        size = 2 * float(np.max(np.linalg.norm(V - V.mean(axis=0), axis=1)))
        kw = {} if arg is None else {"normal": arg.copy() if isinstance(arg, np.ndarray) else arg}
        if kind == "Polygon":
            return S.Polygon(V.copy(), **kw)
        if kind == "ConvexPolygon":
            return S.ConvexPolygon(V.copy(), **kw)
        return S.ConvexSpheropolygon(V.copy(), 10.0 ** case["radius"] * size, **kw)
    ax = case["axes"]["axes"]
    cen = curved.make_centre(case["centre"], max(ax))
    return {"Circle": lambda: S.Circle(ax[0], cen), "Sphere": lambda: S.Sphere(ax[0], cen), "Ellipse": lambda: S.Ellipse(ax[0], ax[1], cen),
            "Ellipsoid": lambda: S.Ellipsoid(ax[0], ax[1], ax[2], cen)}[kind]()


def defining(obj):
    """Defining data as (points (n,3) or None, lengths dict, centre or None)."""
    if hasattr(type(obj), "vertices"):
        lens = {"radius": float(obj.radius)} if hasattr(obj, "radius") else {}
        return np.array(obj.vertices, dtype=float), lens, None
    lens = {k: float(getattr(obj, k)) for k in ("a", "b", "c", "radius") if hasattr(obj, k)}
    return None, lens, np.array(obj.centroid, dtype=float)


DIMLESS = ("iq", "tau", "asphericity", "eccentricity", "num_vertices", "num_faces", "num_edges")


def _dimless(obj):
    out = {}
    for k in DIMLESS:
        if hasattr(type(obj), k):
            v = call(getattr, obj, k)
            if not isinstance(v, Raised):
                out[k] = float(v)
    return out


def _true_measure(obj, prop):
    """Independent value of a size-like property for the object's current defining data (None if no oracle here)."""
    import mpmath

    from oracle import geom

    mpmath.mp.dps = 30
    if isinstance(obj, (S.Sphere, S.Ellipsoid)):
        a, b, c_ = (obj.radius,) * 3 if isinstance(obj, S.Sphere) else (obj.a, obj.b, obj.c)
        if prop == "volume":
            return float(mpmath.mpf(4) / 3 * mpmath.pi * a * b * c_)
        if prop == "surface_area":
            return float(4 * mpmath.pi * mpmath.elliprg((mpmath.mpf(a) * b) ** 2, (mpmath.mpf(a) * c_) ** 2, (mpmath.mpf(b) * c_) ** 2))
        return None
    if isinstance(obj, (S.Circle, S.Ellipse)):
        a, b = (obj.radius, obj.radius) if isinstance(obj, S.Circle) else (obj.a, obj.b)
        if prop == "area":
            return float(mpmath.pi * a * b)
        if prop in ("perimeter", "circumference"):
            big, small = max(a, b), min(a, b)
            return float(4 * big * mpmath.ellipe(1 - (mpmath.mpf(small) / big) ** 2))
        return None
    if isinstance(obj, (S.ConvexSpheropolygon, S.ConvexSpheropolyhedron)):
        return None
    V = np.asarray(obj.vertices, dtype=float)
    if isinstance(obj, S.Polygon):
        o = geom.polygon_moments(V, np.asarray(obj.normal, dtype=float))
        return {"area": o["area"], "perimeter": o["perimeter"]}.get(prop)
    if len(V) > 40:
        return None
    F = [[int(i) for i in f_] for f_ in obj.faces]
    if prop == "volume":
        return geom.mesh_moments(V, F)["volume"]
    if prop == "surface_area":
        return sum(geom.face_area_centroid(V[f_])[0] for f_ in F)
    return None


def _run(case, rec):
    kind, prop = case["kind"], case["prop"]
    obj = call(build, case)
    sig = {"kind": kind, "prop": prop}
    if isinstance(obj, Raised):
        rec.fail("construct", dict(sig, type=obj.type), msg=obj.msg)
        return
    cur = call(getattr, obj, prop)
    rec.concrete = {"kind": kind, "prop": prop, "repr": repr(obj)[:400]}
    if isinstance(cur, Raised):
        rec.label("outside_domain:getter_raises")
        return  # e.g. circumsphere_radius of a non-cyclic shape, centre of a spheropolytope
    V0, L0, C0 = defining(obj)
    scale0 = (maxnorm(V0) if V0 is not None else float(np.linalg.norm(C0)) + max(L0.values()))
    dl0 = _dimless(obj)
    three = observe.is3d(obj)
    # ---------------- centroid / center: pure translation
    if prop in ("center", "centroid"):
        tgt = np.asarray(case["centre_to"], dtype=float) * (0.3 * scale0)
        old = np.array(cur, dtype=float)
        r = call(setattr, obj, prop, tgt.copy())
        if isinstance(r, Raised):
            rec.fail("valid_target_raised", dict(sig, type=r.type), msg=r.msg)
            return
        rec.label("pair:%s.%s" % (kind, prop), "translation")
        rec.nontrivial = True
        rec.close("read_back", call(getattr, obj, prop), tgt, 1e-9 * (scale0 + np.linalg.norm(tgt)), sig)
        V1, L1, C1 = defining(obj)
        if V0 is not None:
            d = V1 - V0
            rec.close("pure_translation", d, np.broadcast_to(tgt - old, d.shape), 1e-9 * (scale0 + np.linalg.norm(tgt)), sig)
            rec.close("edge_vectors_unchanged", V1 - V1[0], V0 - V0[0], 64 * 2.0**-52 * (scale0 + np.linalg.norm(tgt)), sig)
        rec.check(L1 == L0, "lengths_untouched_by_translation", sig, before=L0, after=L1)
        _coherent(rec, obj, sig)
        return
    try:
        cur = float(cur)
    except Exception:
        return
    if not (np.isfinite(cur) and (cur > 0 or (prop == "radius" and cur == 0 and hasattr(type(obj), "vertices")))):
        rec.label("outside_domain:getter_not_positive")
        return
    # ---------------- bad targets are refused and leave the shape as it was
    bad = BAD[case["bad"]]
    if not (prop == "radius" and hasattr(type(obj), "vertices") and bad == 0):  # zero rounding radius is legal
        before = observe.canonical(observe.observe(obj))
        r = call(setattr, obj, prop, bad)
        sb = dict(sig, bad=repr(bad))
        rec.check(isinstance(r, Raised) and r.type == "ValueError", "bad_target_raises_ValueError", sb, got=repr(r)[:80])
        V1, L1, C1 = defining(obj)
        fin = (V1 is None or np.all(np.isfinite(V1))) and all(np.isfinite(v) for v in L1.values())
        rec.check(fin, "geometry_finite_after_bad_target", sb)
        if fin:
            after = observe.canonical(observe.observe(obj))
            observe.compare(rec, before, after, scale0, three, sb, "after_bad_target_", rtol=1e-12)
        if rec.fails:
            return
    # ---------------- positive target
    m = 10.0 ** case["logm"]
    target = cur * m if cur > 0 else 0.37 * scale0
    mini = prop in observe.MINIBALL_DERIVED and V0 is not None
    if mini and len(V0) > 30:
        rec.label("outside_domain:minball_oracle_too_large")
        return  # the exact smallest-enclosing-ball oracle is O(n^4); C13 covers these radii
    pre = copy.deepcopy(obj) if mini else None
    r = call(setattr, obj, prop, target)
    if isinstance(r, Raised):
        rec.fail("valid_target_raised", dict(sig, type=r.type), msg=r.msg)
        return
    rec.label("pair:%s.%s" % (kind, prop))
    rec.nontrivial = abs(case["logm"]) >= 0.5 or 0 < abs(case["logm"]) < 1e-3
    rec.label("factor_within_1e-3_of_one" if 0 < abs(case["logm"]) < 1e-3 else None)
    V1, L1, C1 = defining(obj)
    if prop in PARAMS or (prop == "radius" and V0 is not None):
        # a shape parameter: read-back, everything else untouched
        rec.close("read_back", call(getattr, obj, prop), target, 1e-12 * target, sig)
        if V0 is not None:
            rec.check(np.array_equal(V1, V0), "vertices_untouched_by_parameter", sig)
        else:
            rec.check(all(L1[k] == L0[k] for k in L0 if k != prop) and np.array_equal(C1, C0), "other_parameters_untouched", sig,
                      before=L0, after=L1)
        _coherent(rec, obj, sig)
        return
    d = observe.dimension(prop, three)
    lam = m ** (1.0 / d)
    if mini:
        rt = balls.min_enclosing_ball(V1)[1]
        if abs(rt - target) > 1e-5 * target:
            good = 0
            for sd in range(5):
                o2 = copy.deepcopy(pre)
                random.seed(777 + sd)
                call(setattr, o2, prop, target)
                good += abs(balls.min_enclosing_ball(np.asarray(o2.vertices))[1] - target) <= 1e-5 * target
            rec.fail("read_back", dict(sig, sporadic_miniball=str(good >= 3)), true_radius=rt, target=target)
            return
        lam = None  # the factor applied depends on miniball's answer; require *a* uniform positive factor
    else:
        # the getter re-measures the rescaled shape where it stands: its noise is a few hundred eps of the coordinates
        noise = 1e3 * 2.0**-52 * (maxnorm(V1) if V1 is not None else float(np.linalg.norm(C1))) ** d
        # circum-/in-ball radii are read back through a least-squares fit that mixes unit normals with coordinates: in
        # length units of 1e-6 it keeps ~10 digits (C13 grants the same)
        fit = 1e-9 * target if ("circum" in prop or "insphere" in prop or "incircle" in prop) and abs(case.get("xs", 0.0)) >= 3 else 0.0
        rec.close("read_back", call(getattr, obj, prop), target, 1e-12 * target + noise + fit + 1e-300, sig)
    # similarity of the defining data
    if V0 is not None:
        a0, a1 = V0 - V0[0], V1 - V1[0]
        i = np.unravel_index(np.argmax(np.abs(a0)), a0.shape)
        lam_obs = a1[i] / a0[i]
        if lam is not None:
            rec.close("scale_factor", lam_obs, lam, 1e-9 * lam, sig)
        rec.check(lam_obs > 0, "scale_factor_positive", sig, factor=float(lam_obs))
        rec.close("uniform_scaling_no_rotation", a1, lam_obs * a0, 1e-11 * abs(lam_obs) * scale0, sig)
        for k in L0:
            rec.close("rounding_radius_scaled", L1[k], lam_obs * L0[k], 1e-11 * abs(lam_obs) * max(L0[k], scale0 * 1e-3), sig)
    else:
        ks = sorted(L0)
        lam_obs = L1[ks[0]] / L0[ks[0]]
        rec.close("scale_factor", lam_obs, lam, 1e-9 * lam, sig)
        for k in ks:
            rec.close("uniform_scaling_of_axes", L1[k], lam_obs * L0[k], 1e-12 * lam_obs * L0[k], sig)
        rec.close("centre_moved_with_scaling_or_kept", C1, C0, 0.0, sig) if np.array_equal(C1, C0) else \
            rec.close("centre_moved_with_scaling_or_kept", C1, lam_obs * C0, 1e-12 * lam_obs * (np.linalg.norm(C0) + 1e-300), sig)
    # the assigned value must also be the *true* measure of the new geometry (independent oracles), so that a getter
    # which is wrong in a self-consistent way does not make the setter look right
    truth = _true_measure(obj, prop)
    if truth is not None:
        rec.close("target_is_true_measure", truth, target, 1e-9 * target, sig)
    # dimensionless descriptors preserved
    dl1 = _dimless(obj)
    for k, v in dl0.items():
        if k in dl1:
            if k == "eccentricity":  # sqrt(1-(b/a)^2) is ill-conditioned near a=b: compare the squares
                rec.close("dimensionless_preserved", dl1[k] ** 2, v * v, 1e-13 + 1e-9 * v * v, dict(sig, which=k))
            else:
                rec.close("dimensionless_preserved", dl1[k], v, 1e-9 * max(abs(v), 1e-6), dict(sig, which=k))
    _coherent(rec, obj, sig)


def _coherent(rec, obj, sig):
    fr = call(fresh, obj)
    if isinstance(fr, Raised):
        rec.fail("fresh_construction_failed", dict(sig, type=fr.type), msg=fr.msg)
        return
    L = maxnorm(obj.vertices) if hasattr(type(obj), "vertices") else float(np.linalg.norm(obj.centroid)) + 1e-300
    if hasattr(obj, "radius"):
        L += float(obj.radius)
    a = observe.canonical(observe.observe(obj, isolated=True))
    b = observe.canonical(observe.observe(fr))
    observe.compare(rec, a, b, L, observe.is3d(obj), sig, "vs_fresh_", rtol=1e-9, skip=("gsd_shape_spec", "repr", "polygon", "polyhedron"))


def clauses():
    return [Clause("setters_" + k, _case(k), _run, quick=140, thorough=4000, rule="(class, property, target) for " + k, floors={})
            for k in KINDS]
