"""C06 - 2-D point containment equals exact membership."""
import numpy as np
from hypothesis import strategies as st

from checks.common import S, Raised, as_layout, call, perm_from_noise, points_form_relation, polygon_is_convex_ccw
from gen import curved, points, zoo
from gen import poly as gp
from harness.runner import Clause
from oracle import geom

RULE = ("Generated: simple polygons (all zoo kinds, both orientations, any normal argument, any plane) and convex polygons, "
        "circles and ellipses with a<b, a=b, a>b and any centre; in-plane query points uniform in the 1.3x box, at signed "
        "distance +-10^U(-6,-1)*size from edges / the curve, sharing x or y bit-for-bit with a vertex (integer polygons: "
        "half-integer snapped points), in all four quadrants about the centre. Oracle: crossing number in the generator's own "
        "frame with segment-distance margin; (x/a)^2+(y/b)^2 <= 1; |p-c| <= r. Points within 1e-6*size of the boundary are not "
        "asserted. Non-trivial: a point within 10% of the boundary, or coordinate-aligned with a vertex, or (curved) outside "
        "the first quadrant.")
ASSUMPTIONS = ["points within 1e-6*size of the boundary are not asserted"]
MARGIN = 1e-6


@st.composite
def _pcase(draw, planar):
    n = draw(st.sampled_from([1, 2, 5, 40, 200]))
    kinds = ("star", "comb", "spiral", "lattice", "lattice_free", "lattice_free", "lattice_free", "convex", "untangled")
    return {"poly": draw(gp.simple_polygon(max_n=20, kinds=kinds)), "emb": draw(gp.embedding(planar_only=planar)),
            "pts": draw(points.point_noise(n)), "perm": draw(zoo.noise(min(n, 64))), "single": draw(st.integers(0, 10**6)),
            "use_convex_cls": draw(st.booleans()), "xs": draw(st.sampled_from([0.0, 0.0, 0.0, 0.0, -3.0, -6.0, -8.0, 3.0]))}


@st.composite
def _ccase(draw, k):
    n = draw(st.sampled_from([1, 2, 5, 40, 200]))
    return {"axes": draw(curved.axes(k, decades=2.0)), "centre": draw(curved.centre(dim3=draw(st.integers(0, 3)) == 0)),
            "pts": draw(points.point_noise(n)), "perm": draw(zoo.noise(min(n, 64))), "single": draw(st.integers(0, 10**6))}


def _finish(rec, shape, P3, P2, kinds, want, dist, size, sig, case, sigfn=None):
    n = len(P3)
    safe = dist > MARGIN * size
    arg = as_layout(P3, case.get("single", 0))  # the batch in one of four memory layouts
    rec.label("layout:%d" % (case.get("single", 0) % 4))
    got = call(shape.is_inside, arg)
    if isinstance(got, Raised):
        rec.fail("is_inside_batch", dict(sig, type=got.type), msg=got.msg)
        return False
    got = np.asarray(got)
    rec.check(np.array_equal(arg, P3), "argument_unchanged", sig)
    if not rec.check(got.shape == (n,) and got.dtype == bool, "batch_shape", sig, shape=list(got.shape)):
        return False
    bad = np.nonzero(safe & (got != want))[0]
    seen = set()
    for i in bad:
        s2 = dict(sig, impl=bool(got[i]))
        if sigfn:
            s2.update(sigfn(i))
        key = tuple(sorted(s2.items()))
        if key in seen:
            continue
        seen.add(key)
        rec.fail("membership", s2, point=P3[i], point2d=None if P2 is None else P2[i], dist_over_size=float(dist[i] / size))
    rec.asserts += int(safe.sum())
    for t in range(min(n, 3)):
        i = (case["single"] + 5 * t) % n
        if not safe[i]:
            continue
        one = call(shape.is_inside, P3[i].copy())
        ok = not isinstance(one, Raised) and np.asarray(one).shape == (1,) and bool(np.asarray(one)[0]) == bool(got[i])
        rec.check(ok, "single_equals_batch", sig, point=P3[i], single=repr(one)[:80], batch=bool(got[i]))
    if n > 1:
        p = perm_from_noise(case["perm"], n)
        gp_ = call(shape.is_inside, P3[p].copy())
        okp = not isinstance(gp_, Raised) and np.asarray(gp_).shape == (n,) and np.array_equal(np.asarray(gp_)[safe[p]], got[p][safe[p]])
        rec.check(okp, "permuted_batch", sig)
    points_form_relation(rec, shape, P3, got, safe, dist, size, sig, case.get("single", 0) // 4, planar=True)
    near = bool(np.any(safe & (dist < 0.1 * size)))
    rec.label("near_boundary" if near else None, "aligned" if np.any(kinds == 2) else None, "batch%d" % n)
    return near or bool(np.any(kinds == 2))


def _polygon(case, rec, planar):
    xy = gp.build_polygon_xy(case["poly"])
    em = gp.embed(xy, case["emb"])
    V, arg = em["verts"], em["normal_arg"]
    size = 2 * float(np.max(np.linalg.norm(xy - xy.mean(axis=0), axis=1)))
    P2, kinds = points.points_for_polygon(case["pts"], xy, size)
    lattice = case["poly"]["kind"] in ("lattice", "lattice_free")
    if lattice:
        k = len(P2) // 2
        P2[:k] = np.round(P2[:k] * 2) / 2
        kinds[:k] = 2
    want = geom.crossing_number_inside(P2, xy)
    dist = geom.segment_distance_2d(P2, xy, np.roll(xy, -1, axis=0)).min(axis=1)
    P3 = em["to3d"](P2)
    xs = 10.0 ** case.get("xs", 0.0)  # the whole configuration in other length units (absolute thresholds must not matter)
    V, P3 = V * xs, P3 * xs
    convex = polygon_is_convex_ccw(xy)
    cls = "ConvexPolygon" if (convex and case["use_convex_cls"]) else "Polygon"
    ctor = getattr(S, cls)
    argc = arg.copy() if isinstance(arg, np.ndarray) else arg
    shape = call(ctor, V.copy(), argc) if arg is not None else call(ctor, V.copy())
    inplane = case["emb"]["place"] is None
    sig = {"cls": cls, "plane": "xy" if inplane else "tilted", "orient": "cw" if em["cw"] else "ccw"}
    rec.concrete = {"vertices": V, "normal": None if arg is None else list(map(float, arg)), "points": P3[:5]}
    if isinstance(shape, Raised):
        rec.fail("construct", dict(sig, type=shape.type), msg=shape.msg)
        return
    nt = _finish(rec, shape, P3, P2, kinds, want, dist * em["scale"] * xs, size * em["scale"] * xs, sig, case)
    rec.label("units:1e%g" % case.get("xs", 0.0) if case.get("xs") else None)
    if inplane:
        # (N,2) points are the same points with z = 0
        g3 = call(shape.is_inside, P3.copy())
        g2 = call(shape.is_inside, P3[:, :2].copy())
        sf = dist > MARGIN * size
        ok = (not isinstance(g2, Raised) and not isinstance(g3, Raised) and np.asarray(g2).shape == (len(P3),)
              and np.array_equal(np.asarray(g2)[sf], np.asarray(g3)[sf]))
        rec.check(ok, "points_2d_equal_3d", sig, got=repr(g2)[:100])
        rec.label("points2d")
    rec.label(cls, "kind:" + case["poly"]["kind"], "cw" if em["cw"] else "ccw", "tilted" if not inplane else "inplane",
              "nonconvex" if not convex else None, "lattice_aligned" if lattice and inplane and case["emb"]["inplane"] == 0.0 else None)
    rec.nontrivial = bool(nt)


@st.composite
def _fcase(draw):
    c = draw(_pcase(True))
    c["far"] = draw(st.sampled_from([3.0, 4.0, 5.0, 6.0, 7.0, 7.5, 8.0]))
    c["fdir"] = draw(st.sampled_from([[1.0, 1.0], [1.0, 0.0], [0.0, -1.0], [-0.6, 0.8], [0.28, -0.96]]))
    c["z"] = draw(st.sampled_from([0.0, 0.0, 1.0, -3.5]))
    return c


def _polygon_far(case, rec):
    """The same question 10^3..10^8 polygon sizes away from the origin (in the polygon's own plane z = const)."""
    xy0 = gp.build_polygon_xy(case["poly"])
    size = 2 * float(np.max(np.linalg.norm(xy0 - xy0.mean(axis=0), axis=1)))
    P0, kinds = points.points_for_polygon(case["pts"], xy0, size)
    T = 10.0 ** case["far"] * size * np.asarray(case["fdir"])
    xy, P2 = xy0 + T, P0 + T  # rounded to the grid of doubles out there: these doubles *are* the input
    L = float(np.max(np.abs(xy)))
    if not geom.is_simple_polygon_2d(xy) or len(np.unique(xy, axis=0)) != len(xy):
        rec.label("outside_domain:rounding_broke_simplicity")
        return
    want = geom.crossing_number_inside(P2, xy)
    dist = geom.segment_distance_2d(P2, xy, np.roll(xy, -1, axis=0)).min(axis=1)
    # the class rotates coordinates of size L into its frame: positions are only known to a few eps*L
    dist = np.where(dist > 1e3 * np.finfo(float).eps * L, dist, 0.0)
    z = case["z"] * size
    V = np.column_stack([xy, np.full(len(xy), z)])
    P3 = np.column_stack([P2, np.full(len(P2), z)])
    convex = polygon_is_convex_ccw(xy0)
    cls = "ConvexPolygon" if (convex and case["use_convex_cls"]) else "Polygon"
    shape = call(getattr(S, cls), V.copy())
    sig = {"cls": cls, "plane": "xy", "orient": "ccw", "far": "1e%g" % case["far"]}
    rec.concrete = {"vertices": V, "points": P3[:5]}
    if isinstance(shape, Raised):
        rec.fail("construct", dict(sig, type=shape.type), msg=shape.msg)
        return
    nt = _finish(rec, shape, P3, P2, kinds, want, dist, size, sig, case)
    rec.label(cls, "far:1e%g" % case["far"], "nonconvex" if not convex else None)
    rec.nontrivial = bool(nt)


def _curved(case, rec, cls):
    ax = case["axes"]["axes"]
    scale = max(ax)
    cen = curved.make_centre(case["centre"], scale)
    c = np.asarray(cen, dtype=float)
    a, b = (ax[0], ax[0]) if cls == "Circle" else (ax[0], ax[1])
    shape = call(S.Circle, a, cen) if cls == "Circle" else call(S.Ellipse, a, b, cen)
    sig = {"cls": cls}
    if isinstance(shape, Raised):
        rec.fail("construct", dict(sig, type=shape.type), msg=shape.msg)
        return
    P, kinds = points.points_for_ball(case["pts"], c, np.array([a, b, 1.0]))
    P[:, 2] = c[2]
    rel = (P - c)[:, :2] / np.array([a, b])
    q = np.linalg.norm(rel, axis=1)
    want = q <= 1
    dist = np.abs(q - 1)
    guard = 64 * np.finfo(float).eps * (np.linalg.norm(c) + scale) / min(a, b)
    dist = np.where(dist > guard, dist, 0.0)
    # the known bounding-quadrant rule of Ellipse.is_inside, used only to *name* the bucket
    box = np.all(rel <= 1, axis=1)

    def sigfn(i):
        return {"boxrule": str(bool(box[i])), "oracle": str(bool(want[i]))}

    rec.concrete = {"a": a, "b": b, "centre": c, "points": P[:5]}
    nt = _finish(rec, shape, P, None, kinds, want, dist, 1.0, sig, case, sigfn if cls == "Ellipse" else None)
    quad = bool(np.any((rel[:, 0] < 0) | (rel[:, 1] < 0)))
    rec.label(cls, "mode:" + case["axes"]["mode"], "centre:" + case["centre"]["kind"], "other_quadrant" if quad else None,
              "a<b" if a < b else ("a>b" if a > b else "a=b"), "centre_z!=0" if c[2] != 0 else None)
    rec.nontrivial = bool(nt) or quad


def clauses():
    return [
        Clause("polygon_any_plane", _pcase(False), lambda c, r: _polygon(c, r, False), quick=2500, thorough=40000,
               rule="Polygon/ConvexPolygon, arbitrary embedding", floors={"near_boundary": 0.25, "tilted": 0.3, "cw": 0.2, "nonconvex": 0.25}),
        Clause("polygon_xy_plane", _pcase(True), lambda c, r: _polygon(c, r, True), quick=3500, thorough=60000,
               rule="polygon in the xy-plane; also (N,2) points", floors={"aligned": 0.15, "points2d": 0.9, "lattice_aligned": 0.05}),
        Clause("polygon_far_from_origin", _fcase(), _polygon_far, quick=1500, thorough=20000,
               rule="polygon and queries translated 1e3..1e8 sizes from the origin; probes closer to the boundary than 1e3 eps L are not judged",
               floors={"near_boundary": 0.2}),
        Clause("circle", _ccase(1), lambda c, r: _curved(c, r, "Circle"), quick=1200, thorough=20000, rule="Circle",
               floors={"other_quadrant": 0.4}),
        Clause("ellipse", _ccase(2), lambda c, r: _curved(c, r, "Ellipse"), quick=1500, thorough=25000, rule="Ellipse",
               floors={"other_quadrant": 0.4, "a<b": 0.15, "a>b": 0.15}),
    ]


def selftest():
    geom.self_test()
    sq = np.array([[0, 0], [2, 0], [2, 1], [0, 1.0]])
    assert geom.crossing_number_inside([[1, .5], [3, .5], [1, -1], [2, 2]], sq).tolist() == [True, False, False, False]
