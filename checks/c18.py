"""C18 - every tabulated family entry is the solid its name says (finite, exhaustive)."""
import json
import os
import warnings

import numpy as np

from checks.common import S, Raised, call, coxeter, get
from harness import env
from harness.runner import Clause
from oracle import geom

RULE = ("Enumerated completely: every entry of the Platonic(5), Archimedean(13), Catalan(13), Johnson(92), prism/antiprism(16), "
        "pyramid/dipyramid(6) families and of the 145-entry DOI 10.1126/science.1220869 repository, plus one family-level case "
        "per family (iteration order, repeated and abandoned iteration, unknown names), the DOI mapping, and one cross-family case (every "
        "entry by keyword in one process, then every family asked for the names only other families tabulate). Oracle: hand-entered "
        "textbook (V,E,F); brute-force facets of the raw JSON vertices; volume 1; equal edge lengths and regular faces; "
        "insphere tangency for Catalan solids; cited family entries located by name (or, failing that, by geometry). Non-trivial: "
        "every entry case checked against at least one external fact; distinct = distinct entry.")
ASSUMPTIONS = ["textbook vertex/edge/face counts entered by hand in this module", "tolerance 1e-9 relative (data are accurate to 1e-13)"]
EXHAUSTIVE = True

VEF = {
    "platonic": {"Tetrahedron": (4, 6, 4), "Cube": (8, 12, 6), "Octahedron": (6, 12, 8), "Dodecahedron": (20, 30, 12),
                 "Icosahedron": (12, 30, 20)},
    "archimedean": {"Cuboctahedron": (12, 24, 14), "Icosidodecahedron": (30, 60, 32), "Truncated Tetrahedron": (12, 18, 8),
                    "Truncated Octahedron": (24, 36, 14), "Truncated Cube": (24, 36, 14), "Truncated Icosahedron": (60, 90, 32),
                    "Truncated Dodecahedron": (60, 90, 32), "Rhombicuboctahedron": (24, 48, 26),
                    "Rhombicosidodecahedron": (60, 120, 62), "Truncated Cuboctahedron": (48, 72, 26),
                    "Truncated Icosidodecahedron": (120, 180, 62), "Snub Cuboctahedron": (24, 60, 38),
                    "Snub Icosidodecahedron": (60, 150, 92)},
    "catalan": {"Triakis Tetrahedron": (8, 18, 12), "Rhombic Dodecahedron": (14, 24, 12), "Triakis Octahedron": (14, 36, 24),
                "Tetrakis Hexahedron": (14, 36, 24), "Deltoidal Icositetrahedron": (26, 48, 24),
                "Disdyakis Dodecahedron": (26, 72, 48), "Pentagonal Icositetrahedron": (38, 60, 24),
                "Rhombic Triacontahedron": (32, 60, 30), "Triakis Icosahedron": (32, 90, 60),
                "Pentakis Dodecahedron": (32, 90, 60), "Deltoidal Hexecontahedron": (62, 120, 60),
                "Disdyakis Triacontahedron": (62, 180, 120), "Pentagonal Hexecontahedron": (92, 150, 60)},
}
COUNTS = {"platonic": 5, "archimedean": 13, "catalan": 13, "johnson": 92, "prism_antiprism": 16, "pyramid_dipyramid": 6}
SCI = "10.1126/science.1220869"


def families():
    from coxeter import families as F

    return {"platonic": F.PlatonicFamily, "archimedean": F.ArchimedeanFamily, "catalan": F.CatalanFamily, "johnson": F.JohnsonFamily,
            "prism_antiprism": F.PrismAntiprismFamily, "pyramid_dipyramid": F.PyramidDipyramidFamily}


def raw(fam):
    """Vertices straight from the repository's JSON files (no coxeter code)."""
    fn = "science1220869.json" if fam == "science" else fam + ".json"
    return json.load(open(os.path.join(env.REPO, "coxeter", "families", "data", fn)))


def _cases(tier):
    out = []
    for fam in COUNTS:
        out.append({"fam": fam, "level": "family"})
        out += [{"fam": fam, "level": "entry", "name": n} for n in raw(fam)]
    out.append({"fam": "science", "level": "family"})
    out += [{"fam": "science", "level": "entry", "name": n} for n in raw("science")]
    out.append({"fam": "doi", "level": "family"})
    out.append({"fam": "all", "level": "cross"})
    return out


def _edges(facets):
    return {(min(a, b), max(a, b)) for fc in facets for a, b in zip(fc, fc[1:] + fc[:1])}


def _family_obj(fam):
    if fam == "science":
        from coxeter.families import DOI_SHAPE_REPOSITORIES

        return DOI_SHAPE_REPOSITORIES[SCI][0]
    return families()[fam]


def _entry(case, rec):
    fam, name = case["fam"], case["name"]
    F = _family_obj(fam)
    sig = {"family": fam}
    with warnings.catch_warnings():
        warnings.simplefilter("ignore")
        sh = call(F.get_shape, name)
    rec.concrete = {"family": fam, "name": name}
    rec.label("family:" + fam)
    if not rec.check(not isinstance(sh, Raised) and type(sh) is S.ConvexPolyhedron, "builds_ConvexPolyhedron", sig, got=repr(sh)[:100], name=name):
        return
    data = raw(fam)[name]
    V = np.array(data["vertices"], dtype=float)
    rec.close("vertices_are_the_tabulated_ones", sh.vertices, V, 0.0, sig, name=name)
    facets, nrm, off, isv = geom.convex_facets(V)
    E = _edges(facets)
    nV, nE, nF = len(V), len(E), len(facets)
    rec.check(isv.all(), "all_tabulated_vertices_are_hull_vertices", sig, name=name)
    rec.check((get(sh, "num_vertices"), get(sh, "num_edges"), get(sh, "num_faces")) == (nV, nE, nF), "counts_agree_with_hull", sig,
              name=name, got=[get(sh, "num_vertices"), get(sh, "num_edges"), get(sh, "num_faces")], want=[nV, nE, nF])
    rec.nontrivial = True
    L = np.array([np.linalg.norm(V[a] - V[b]) for a, b in sorted(E)])
    if fam in VEF:
        if name not in VEF[fam]:
            raise env.HarnessError(f"no textbook counts for {fam}:{name}")
        rec.check((nV, nE, nF) == VEF[fam][name], "textbook_VEF", sig, name=name, got=[nV, nE, nF], want=list(VEF[fam][name]))
        rec.check((get(sh, "num_vertices"), get(sh, "num_edges"), get(sh, "num_faces")) == VEF[fam][name], "textbook_VEF_reported", sig, name=name)
        rec.close("unit_volume", get(sh, "volume"), 1.0, 1e-9, sig, name=name)
        rec.close("unit_volume_oracle", geom.mesh_moments(V, facets)["volume"], 1.0, 1e-9, sig, name=name)
    if fam in ("platonic", "archimedean", "johnson"):
        rec.close("equal_edge_lengths", L, np.full_like(L, L.mean()), 1e-9 * L.mean(), sig, name=name)
        for fc in facets:
            P = V[fc]
            c = P.mean(axis=0)
            r = np.linalg.norm(P - c, axis=1)
            if not rec.close("regular_faces_concyclic", r, np.full_like(r, r.mean()), 1e-9 * r.mean(), sig, name=name, face=fc):
                break
    if fam == "catalan":
        ins = get(sh, "insphere")
        if rec.check(not isinstance(ins, Raised), "catalan_has_insphere", sig, name=name, got=repr(ins)[:100]):
            c = np.asarray(ins.centroid, dtype=float)
            d = off - nrm @ c  # distance from centre to every facet plane (positive inside)
            rec.close("insphere_tangent_to_every_face", d, np.full_like(d, ins.radius), 1e-9 * abs(ins.radius), sig, name=name)
            rec.check(np.all(d > 0), "insphere_centre_inside", sig, name=name)
    if fam == "science":
        src = data.get("source")
        if src and src.endswith(".json") and src[:-5] in COUNTS:
            sf = src[:-5]
            rec.label("cites_family")
            fd = raw(sf)
            cited = data.get("name")
            match = None
            if cited in fd:
                match = cited
            else:  # spelled differently: locate the entry by geometry
                rec.label("cited_name_not_found")
                for k, v in fd.items():
                    W = np.array(v["vertices"], dtype=float)
                    if W.shape == V.shape and np.allclose(np.sort(W, axis=0), np.sort(V, axis=0), atol=1e-9) and \
                            {tuple(np.round(x, 8)) for x in W} == {tuple(np.round(x, 8)) for x in V}:
                        match = k
                        break
            if rec.check(match is not None, "cited_family_entry_exists", sig, name=name, cited=cited, source=sf):
                W = np.array(fd[match]["vertices"], dtype=float)
                same = W.shape == V.shape and {tuple(np.round(x, 9)) for x in W} == {tuple(np.round(x, 9)) for x in V}
                rec.check(same, "coincides_with_cited_family_entry", sig, name=name, cited=match, source=sf)
                with warnings.catch_warnings():
                    warnings.simplefilter("ignore")
                    other = call(families()[sf].get_shape, match)
                if not isinstance(other, Raised):
                    rec.close("same_volume_as_cited_entry", get(sh, "volume"), get(other, "volume"), 1e-9, sig, name=name)


def _family(case, rec):
    fam = case["fam"]
    sig = {"family": fam, "level": "family"}
    rec.label("family:" + fam, "family_level")
    rec.nontrivial = True
    rec.concrete = {"family": fam}
    if fam == "doi":
        from coxeter import families as Fm
        from coxeter.families import DOI_SHAPE_REPOSITORIES as D

        a = call(lambda: D["10.1103/PhysRevX.4.011024"])
        ok = not isinstance(a, Raised) and [type(x) for x in a] == [Fm.Family323Plus, Fm.Family423, Fm.Family523]
        rec.check(ok, "doi_chen2014_families", sig, got=repr(a)[:120])
        b = call(lambda: D["10.1021/nn204012y"])
        rec.check(not isinstance(b, Raised) and [type(x) for x in b] == [Fm.TruncatedTetrahedronFamily], "doi_damasceno_family", sig, got=repr(b)[:120])
        c = call(lambda: D[SCI])
        rec.check(not isinstance(c, Raised) and len(c) == 1 and isinstance(c[0], Fm.TabulatedGSDShapeFamily) and len(c[0].names) == 145,
                  "doi_science_repository", sig, got=repr(c)[:120])
        keys_before = call(lambda: sorted(D.keys()))
        for key in ("10.0000/unknown", "", "science.1220869", "10.1126/science.0000000"):
            for attempt in range(3):  # a failed lookup must not make the next one succeed
                r = call(lambda k=key: D[k])
                rec.check(isinstance(r, Raised) and r.type == "KeyError", "unknown_doi_raises_KeyError", dict(sig, attempt=attempt), key=key,
                          got=repr(r)[:80])
            rec.check(call(lambda k=key: k in D) is False, "unknown_doi_is_not_a_key", sig, key=key)
        rec.check(call(lambda: sorted(D.keys())) == keys_before, "doi_keys_unchanged_by_failed_lookups", sig)
        return
    F = _family_obj(fam)
    names = list(raw(fam))
    want_n = COUNTS.get(fam, 145)
    rec.check(len(names) == want_n, "entry_count", sig, got=len(names), want=want_n)
    rec.check(list(F.names) == names, "names_are_the_tabulated_keys", sig)
    with warnings.catch_warnings():
        warnings.simplefilter("ignore")
        for rnd in range(2):  # a second full pass must yield the same thing
            it = call(lambda: list(iter(F)))
            if not rec.check(not isinstance(it, Raised) and [k for k, _ in it] == names, "iteration_yields_names_in_order", dict(sig, round=rnd),
                             got=repr(it)[:100]):
                return
            for k, shp in it:
                g = call(F.get_shape, k)
                same = not isinstance(g, Raised) and type(shp) is type(g) and np.array_equal(shp.vertices, g.vertices)
                if not rec.check(same, "iterated_shape_equals_get_shape", dict(sig, round=rnd), name=k):
                    break
            # an abandoned loop must not affect the next one
            for k, shp in F:
                break
        # unknown names: plainly unknown ones and near misses of every tabulated name (other capitalisation, stray or
        # doubled white space, a truncated name) - anything that is not in `names` must raise, every time it is asked
        bads = ["No Such Solid", "", names[0].lower() + "?"]
        for nm in names:
            bads += [nm.lower(), nm.upper(), " " + nm, nm + " ", nm.replace(" ", "  "), nm + "\n", nm[:-1], nm.swapcase()]
        known = set(names)
        for bad in dict.fromkeys(bads):
            if bad in known:
                continue
            for attempt in range(2):
                r = call(F.get_shape, bad)
                if not rec.check(isinstance(r, Raised) and r.type == "KeyError", "unknown_name_raises_KeyError", dict(sig, attempt=attempt),
                                 key=bad, got=repr(r)[:80]):
                    break
        rec.check(list(F.names) == names, "names_unchanged_by_failed_lookups", sig)


def _cross(case, rec):
    """One process, all families in turn: every entry asked for by keyword (`get_shape(name=...)`, the idiom of the
    ShapeFamily docstring) right after its neighbours, then every family asked for every name that only *other* families
    tabulate, after those have been built - a family-level or module-level memo keyed by too little would answer."""
    rec.label("cross_family")
    rec.nontrivial = True
    rec.concrete = {"family": "all"}
    fams = list(COUNTS) + ["science"]
    tables = {f: raw(f) for f in fams}
    with warnings.catch_warnings():
        warnings.simplefilter("ignore")
        for rnd in range(2):
            for f in fams:
                F = _family_obj(f)
                sig = {"family": f, "level": "cross"}
                for nm, data in tables[f].items():
                    sh = call(F.get_shape, name=nm) if rnd == 0 else call(F.get_shape, nm)
                    V = np.array(data["vertices"], dtype=float)
                    ok = not isinstance(sh, Raised) and type(sh) is S.ConvexPolyhedron and np.shape(sh.vertices) == V.shape \
                        and np.array_equal(sh.vertices, V)
                    if not rec.check(ok, "keyword_call_gives_the_tabulated_entry" if rnd == 0 else "positional_call_after_keyword_calls",
                                     sig, name=nm, got=repr(sh)[:80]):
                        break
        for f in fams:
            F = _family_obj(f)
            sig = {"family": f, "level": "cross"}
            foreign = [nm for g in fams if g != f for nm in tables[g] if nm not in tables[f]]
            for nm in dict.fromkeys(foreign):
                r = call(F.get_shape, nm)
                if not rec.check(isinstance(r, Raised) and r.type == "KeyError", "foreign_name_raises_KeyError", sig, key=nm, got=repr(r)[:80]):
                    break
                r = call(F.get_shape, name=nm)
                if not rec.check(isinstance(r, Raised) and r.type == "KeyError", "foreign_name_by_keyword_raises_KeyError", sig, key=nm,
                                 got=repr(r)[:80]):
                    break


def _run(case, rec):
    {"family": _family, "entry": _entry, "cross": _cross}[case["level"]](case, rec)


def clauses():
    return [Clause("tabulated", None, _run, quick=0, thorough=0, enumerate_cases=_cases, rule="complete enumeration (both tiers identical)",
                   floors={"family:johnson": 0.2, "cites_family": 0.3})]


def selftest():
    geom.self_test()
    for fam, tab in VEF.items():
        assert set(tab) == set(raw(fam)), (fam, set(tab) ^ set(raw(fam)))
        for v, e, f in tab.values():
            assert v - e + f == 2
