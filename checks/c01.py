"""C01 - convex polyhedron volume, area, centroid and inertia tensor are exact."""
from fractions import Fraction

import numpy as np
from hypothesis import strategies as st

from checks.common import (S, Raised, call, coplanarity_ambiguous, diameter, face_key, facet_flatness, get,
                           perm_from_noise, tol_scale)
from gen import zoo
from harness.runner import Clause
from oracle import geom

RULE = ("Generated: convex vertex sets (jittered-sphere/ellipsoid, integer-lattice hulls with coplanar facets, "
        "prisms/antiprisms/pyramids/dipyramids/frusta/boxes, tabulated solids) x rotation x translation up to 10 "
        "diameters x scale 10^+-1 x vertex permutation. Oracle: brute-force facets + exact signed-tetrahedron "
        "moments (Fraction for integer input). Non-trivial: >=5 vertices and (a facet with >=4 vertices or offset "
        ">= 1 diameter or aspect >= 20); distinct = distinct generated case.")
ASSUMPTIONS = ["numpy/scipy linear algebra, Python Fraction, Hypothesis",
               "tolerance = K*eps*n_tri*L^d with L the largest vertex norm (conditioning of origin-based sums), K=1e4"]
K = 1e4


@st.composite
def _case(draw, max_n, decades=1.0, anchored=False):
    cvx = draw(zoo.convex3d(max_n=max_n, kinds=("ellipsoid", "lattice", "prismatoid", "tabulated", "ellipsoid", "lattice", "prismatoid", "tabulated", "sliver")))
    pl = draw(zoo.placement(max_offset=10.0, scale_decades=decades))
    n = 80
    out = {"cvx": cvx, "place": pl, "perm": draw(zoo.noise(n)), "perm2": draw(zoo.noise(n)),
           "int_t": [draw(st.integers(-30, 30)) for _ in range(3)], "vdtype": draw(st.sampled_from(["float", "float", "int64", "int32", "list"]))}
    if anchored:
        out["anchor"] = draw(st.sampled_from(zoo.ANCHORS))
        out["anchor_k"] = draw(st.integers(0, 40))
    return out


def _measures(rec, V, tag, sig0):
    """Compare one ConvexPolyhedron built from V (in this order) with the oracle."""
    n = len(V)
    vd = sig0.get("vertices_as", "float")
    if vd in ("int64", "int32"):  # integer-typed coordinates (only drawn for integer-valued data)
        arg = V.astype(getattr(np, vd))
    elif vd == "list":
        arg = [[float(x) for x in v] for v in V]
    else:
        arg = V.copy()
    poly = call(S.ConvexPolyhedron, arg)
    if isinstance(poly, Raised):
        rec.fail("construct", dict(sig0, type=poly.type), msg=poly.msg, tag=tag)
        return None
    facets, normals, offsets, _ = geom.convex_facets(V)
    ntri = sum(len(fc) - 2 for fc in facets)
    T = tol_scale(V, ntri, K)
    exact = sig0.get("exact") == "True"
    if exact:
        Vi = [[int(round(x)) for x in v] for v in V]
        fi, _, _ = geom.convex_facets_int(Vi)
        me = geom.mesh_moments_exact(Vi, fi)
        m = {"volume": float(me["volume"]), "centroid": np.array([float(x) for x in me["centroid"]]),
             "inertia": np.array([[float(x) for x in r] for r in me["inertia"]])}
        facets = fi
    else:
        m = geom.mesh_moments(V, facets)
    vol = m["volume"]
    rec.close("volume", get(poly, "volume"), vol, T["vol"], sig0, tag=tag)
    areas, cents = {}, {}
    for fc in facets:
        a, c = geom.face_area_centroid(V[fc])
        areas[face_key(fc)] = a
        cents[face_key(fc)] = c
    # areas come from cross products of edge vectors (differences), not from origin-based sums: the largest error seen
    # over 1e5 cases was 2e-4 (total) and 2.5e-5 (per face) of K*eps*n*L^2, so those tolerances are 100x / 1000x tighter
    rec.close("surface_area", get(poly, "surface_area"), sum(areas.values()), T["area"] / 100, sig0, tag=tag)
    rec.close("centroid", get(poly, "centroid"), m["centroid"], T["m4"] / vol, sig0, tag=tag)
    rec.close("center", get(poly, "center"), m["centroid"], T["m4"] / vol, sig0, tag=tag)
    it = get(poly, "inertia_tensor")
    rec.close("inertia_tensor", it, m["inertia"], T["m5"], sig0, tag=tag)
    if not isinstance(it, Raised):
        it = np.asarray(it)
        rec.check(it.shape == (3, 3) and np.allclose(it, it.T, rtol=0, atol=T["m5"]), "inertia_symmetric", sig0)
    # per-face quantities keyed by vertex set
    amb = coplanarity_ambiguous(V, facets, normals, offsets) if not exact else False
    if sig0.get("anchored"):
        # anchoring subtracts an offset of up to 10 diameters: the coplanarity of a facet's vertices then carries the
        # rounding of the *old* coordinates (several ulps of the new ones), and the exact hull of such points really has
        # the extra edge - whether a facet is reported whole or split is not judged there (the measures are)
        amb = amb or coplanarity_ambiguous(V, facets, normals, offsets, lo=0.0) or facet_flatness(V, facets, normals, offsets) > 2.0
    pf = [face_key(fc) for fc in poly.faces]
    same = set(pf) == set(areas) and len(pf) == len(areas)
    if not amb:
        rec.check(same, "faces_match_hull_facets", sig0, got=[sorted(k) for k in pf][:8],
                  want=[sorted(k) for k in areas][:8], tag=tag)
    if same:
        fa = call(poly.get_face_area)
        if isinstance(fa, Raised):
            rec.fail("get_face_area", dict(sig0, type=fa.type), msg=fa.msg)
        else:
            rec.close("get_face_area", np.asarray(fa, dtype=float), [areas[k] for k in pf], T["area"] / 1000, sig0, tag=tag)
            j = len(pf) // 2
            one = call(poly.get_face_area, j)
            rec.close("get_face_area_single", one, areas[pf[j]], T["area"] / 1000, sig0, tag=tag)
            sub = call(poly.get_face_area, [j, 0])
            rec.close("get_face_area_list", np.asarray(sub, dtype=float), [areas[pf[j]], areas[pf[0]]], T["area"] / 1000, sig0)
        fcn = get(poly, "face_centroids")
        rec.close("face_centroids", fcn, np.array([cents[k] for k in pf]), T["len"] * 10, sig0, tag=tag)
    return {"poly": poly, "m": m, "faces": set(pf), "T": T, "area": sum(areas.values()), "nfacets": len(facets),
            "maxdeg": max(len(fc) for fc in facets)}


def _convex(case, rec):
    c = zoo.build_convex(case["cvx"])
    V0 = c["verts"]
    pl = case["place"]
    exact = bool(c["lattice"] and zoo.is_identity_rotation(pl) and pl["logs"] == 0.0 and not case.get("anchor"))
    if exact:
        V = V0 + np.asarray(case["int_t"], dtype=float) * (1 if pl["tmag"] > 0 else 0)
    else:
        V, R, t, s = zoo.apply_placement(pl, V0)
    if case.get("anchor"):
        V = zoo.anchored(case["anchor"], V, geom.convex_facets(V)[0], case["anchor_k"])
        rec.label("anchor:" + case["anchor"])
    n = len(V)
    p1 = perm_from_noise(case["perm"], n)
    V1 = V[p1]
    D = diameter(V)
    off = float(np.linalg.norm(V.mean(axis=0))) / D
    sig0 = {"kind": case["cvx"]["kind"], "exact": str(exact)}
    vd = case.get("vdtype", "float")
    if vd in ("int64", "int32") and not exact:
        vd = "float"
    if case.get("anchor"):
        sig0["anchored"] = "True"
    if vd != "float":
        sig0["vertices_as"] = vd
        rec.label("vertices_as:" + vd)
    rec.concrete = {"vertices": V1}
    r1 = _measures(rec, V1, "order1", sig0)
    if r1 is None:
        return
    rec.label(case["cvx"]["kind"], case["cvx"].get("sub"), "offset>=1" if off >= 1 else "offset<1",
              "aspect>=20" if c["aspect"] >= 20 else None, "exact" if exact else None,
              "nontriangular" if r1["maxdeg"] > 3 else "alltriangles", "rotated" if not zoo.is_identity_rotation(pl) else None)
    rec.nontrivial = n >= 5 and (r1["maxdeg"] > 3 or off >= 1 or c["aspect"] >= 20)
    if case.get("anchor"):
        rec.nontrivial = n >= 5 and float(np.linalg.norm(r1["m"]["centroid"] - V.mean(axis=0))) > 1e-3 * D
    # order independence (metamorphic): same set, another order
    p2 = perm_from_noise(case["perm2"], n)
    if p2 == p1:
        p2 = p1[::-1]
    if p2 != p1:
        rec.label("reordered")
        V2 = V[p2]
        b = call(S.ConvexPolyhedron, V2.copy())
        if isinstance(b, Raised):
            rec.fail("construct", dict(sig0, type=b.type, order="second"), msg=b.msg)
            return
        a, T = r1["poly"], r1["T"]
        vol = r1["m"]["volume"]
        rec.close("order_volume", b.volume, a.volume, T["vol"], sig0)
        rec.close("order_surface_area", b.surface_area, a.surface_area, T["area"] / 100, sig0)
        rec.close("order_centroid", b.centroid, a.centroid, T["m4"] / vol, sig0)
        rec.close("order_inertia", b.inertia_tensor, a.inertia_tensor, T["m5"], sig0)
        inv1 = {i: p1[i] for i in range(n)}
        inv2 = {i: p2[i] for i in range(n)}
        fa = {frozenset(inv1[int(i)] for i in fc) for fc in a.faces}
        fb = {frozenset(inv2[int(i)] for i in fc) for fc in b.faces}
        cf = geom.convex_facets(V)[:3]
        if not coplanarity_ambiguous(V, *cf, lo=0.0 if case.get("anchor") else 1e-12) and not (case.get("anchor") and facet_flatness(V, *cf) > 2.0):
            rec.check(fa == fb, "order_faces", sig0)


def clauses():
    return [
        Clause("convex_measures", _case(30), _convex, quick=3600, thorough=30000,
               rule="see RULE", floors={"lattice": 0.08, "offset>=1": 0.2, "nontriangular": 0.3, "reordered": 0.5}),
        Clause("convex_measures_large", _case(60), _convex, quick=480, thorough=6000,
               rule="same with up to 60 vertices", floors={}),
        Clause("convex_measures_extreme_scale", _case(20, 8.0), _convex, quick=1200, thorough=8000,
               rule="same with uniform scale 10^U(-8,8) (tolerances are scale-free)", floors={}),
        Clause("convex_measures_anchored_at_origin", _case(24, 1.0, True), _convex, quick=1200, thorough=8000,
               rule="same solids translated so that their centroid / vertex mean / one vertex / bounding-box centre is the origin",
               floors={"anchor:centroid": 0.2}),
    ]


def selftest():
    geom.self_test()
    # oracle cross-check: exact Fraction path vs extended-precision path on a lattice solid
    pts = [(0, 0, 0), (2, 0, 0), (2, 3, 0), (0, 3, 0), (0, 0, 1), (2, 0, 1), (2, 3, 1), (0, 3, 1), (1, 1, 3)]
    f, _, isv = geom.convex_facets_int(pts)
    hv = [p for p, v in zip(pts, isv) if v]
    f, _, _ = geom.convex_facets_int(hv)
    me = geom.mesh_moments_exact(hv, f)
    ff, _, _, _ = geom.convex_facets(np.array(hv, float))
    m = geom.mesh_moments(np.array(hv, float), ff)
    assert abs(float(me["volume"]) - m["volume"]) < 1e-12
    assert me["volume"] == Fraction(6) + Fraction(2 * 3 * 2, 3)
