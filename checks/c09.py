"""C09 - results are covariant under rotation, translation, scaling and relabelling."""
import math

import numpy as np
from hypothesis import strategies as st

from checks import observe
from checks.common import S, Raised, call, maxnorm, perm_from_noise
from gen import curved, zoo
from gen import poly as gp
from gen.zoo import f, noise
from harness.runner import Clause
from oracle import geom

RULE = ("Generated: shapes of all ten classes (zoo solids, meshes incl. axis-aligned polycubes/boxes, polygons in any plane, "
        "spheropolytopes, curved shapes) and a transformation g = proper rotation x translation up to 10 diameters x uniform scale "
        "10^U(-3,3), combined with a relabelling (vertex permutation for convex classes; cyclic shift of every face and of the "
        "polygon cycle; vertex relabelling with consistent face rewrite for meshes). Oracle (metamorphic): every public observable "
        "of g.x (reflection-enumerated, canonical form) equals the transformation rule applied to the observable of x: lengths*s, "
        "areas*s^2, volumes*s^3, points s R p + t, vectors R v, plane offsets s d - n.t, inertia s^5 R I_c R^T + parallel axis, "
        "containment of g.p in g.x, F(q) -> s^d exp(-i q'.t) F with q' = R q / s, dimensionless unchanged; raising on one side "
        "only is a violation. Non-trivial: |log10 s| >= 1, or rotation angle >= 0.1, or |t| >= 1 diameter, or a relabelling.")
ASSUMPTIONS = ["origin-referenced planar/polar moments are not compared (frame-dependent by documentation)",
               "relative tolerance 1e-7 on max(|value|, L^dim) with L the largest coordinate of either shape"]

KINDS = ["ConvexPolyhedron", "Polyhedron", "ConvexSpheropolyhedron", "Polygon", "ConvexPolygon", "ConvexSpheropolygon", "Circle", "Ellipse",
         "Sphere", "Ellipsoid"]


@st.composite
def _case(draw, kind):
    c = {"kind": kind, "g": draw(zoo.placement(max_offset=10.0, scale_decades=3.0, p_identity=0.3)), "perm": draw(noise(40)),
         "shift": draw(st.integers(0, 6)), "relabel": draw(st.booleans()), "radius": draw(f(-2, 0.5))}
    if kind in ("ConvexPolyhedron", "ConvexSpheropolyhedron"):
        c["cvx"] = draw(zoo.convex3d(max_n=14))
        c["place0"] = draw(zoo.placement(max_offset=2.0, p_identity=0.5))
    elif kind == "Polyhedron":
        c["mesh"] = draw(zoo.mesh3d(max_n=10))
        c["place0"] = draw(zoo.placement(max_offset=2.0, p_identity=0.6))
    elif kind in ("Polygon", "ConvexPolygon", "ConvexSpheropolygon"):
        kinds = ("convex",) if kind != "Polygon" else ("star", "comb", "lattice", "lattice_free", "lattice_free", "convex", "untangled")
        c["poly"] = draw(gp.simple_polygon(max_n=10, kinds=kinds))
        c["emb"] = draw(gp.embedding())
    else:
        k = {"Circle": 1, "Sphere": 1, "Ellipse": 2, "Ellipsoid": 3}[kind]
        c["axes"] = draw(curved.axes(k, decades=1.0))
        c["centre"] = draw(curved.centre(dim3=kind in ("Sphere", "Ellipsoid")))
    return c


def _build_pair(case):
    """-> (x, gx, info) where info has R, t, s, perm (x' vertex j = g(x vertex perm[j])), face map."""
    kind = case["kind"]
    g = case["g"]
    if kind in ("Circle", "Ellipse", "Sphere", "Ellipsoid"):
        ax = case["axes"]["axes"]
        cen = np.asarray(curved.make_centre(case["centre"], max(ax)), dtype=float)
        s = 10.0 ** g["logs"]
        d = np.asarray(g["tdir"], dtype=float)
        t = g["tmag"] * 2 * max(ax) * s * d / np.linalg.norm(d)
        if kind in ("Circle", "Ellipse"):
            t[2] = 0.0
        cls = getattr(S, kind)
        x = cls(*ax, cen)
        gx = cls(*[a * s for a in ax], s * cen + t)
        return x, gx, {"R": np.eye(3), "t": t, "s": s, "perm": None}
    if kind in ("ConvexPolyhedron", "ConvexSpheropolyhedron"):
        V0, _, _, _ = zoo.apply_placement(case["place0"], zoo.build_convex(case["cvx"])["verts"])
        V1, R, t, s = zoo.apply_placement(g, V0)
        perm = perm_from_noise(case["perm"], len(V0)) if case["relabel"] else list(range(len(V0)))
        V1 = V1[perm]
        if kind == "ConvexPolyhedron":
            return S.ConvexPolyhedron(V0.copy()), S.ConvexPolyhedron(V1.copy()), {"R": R, "t": t, "s": s, "perm": perm}
        size = 2 * float(np.max(np.linalg.norm(V0 - V0.mean(axis=0), axis=1)))
        r = 10.0 ** case["radius"] * size
        return S.ConvexSpheropolyhedron(V0.copy(), r), S.ConvexSpheropolyhedron(V1.copy(), r * s), {"R": R, "t": t, "s": s, "perm": perm}
    if kind == "Polyhedron":
        m = zoo.build_mesh(case["mesh"])
        V0, _, _, _ = zoo.apply_placement(case["place0"], m["verts"])
        F0 = [list(map(int, f_)) for f_ in m["faces"]]
        V1, R, t, s = zoo.apply_placement(g, V0)
        perm = list(range(len(V0)))
        F1 = [list(f_) for f_ in F0]
        if case["relabel"]:
            perm = perm_from_noise(case["perm"], len(V0))
            inv = {old: new for new, old in enumerate(perm)}
            V1 = V1[perm]
            k = case["shift"]
            F1 = [[inv[i] for i in (f_[k % len(f_):] + f_[:k % len(f_)])] for f_ in F0]
        x = S.Polyhedron(V0.copy(), [np.array(f_) for f_ in F0], True)
        gx = S.Polyhedron(V1.copy(), [np.array(f_) for f_ in F1], True)
        return x, gx, {"R": R, "t": t, "s": s, "perm": perm}
    xy = gp.build_polygon_xy(case["poly"])
    emb = case["emb"]
    if case["poly"]["kind"].startswith("lattice"):
        emb = dict(emb, place=None, inplane=0.0, offset2=[0.0, 0.0])  # keep the base polygon axis-aligned on integers
    em = gp.embed(xy, emb)
    V0 = em["verts"]
    nrm = em["nplus"] * (-1.0 if case["emb"]["normal"] == "minus" else 1.0)
    V1, R, t, s = zoo.apply_placement(g, V0)
    n = len(V0)
    perm = list(range(n))
    if case["relabel"]:
        k = case["shift"] % n
        perm = list(range(k, n)) + list(range(k))  # cyclic shift
        if kind != "Polygon":
            perm = perm_from_noise(case["perm"], n)  # convex classes accept any order
        V1 = V1[perm]
    kw0, kw1 = {"normal": tuple(nrm)}, {"normal": tuple(R @ nrm)}
    if kind == "Polygon":
        return S.Polygon(V0.copy(), **kw0), S.Polygon(V1.copy(), **kw1), {"R": R, "t": t, "s": s, "perm": perm}
    if kind == "ConvexPolygon":
        return S.ConvexPolygon(V0.copy(), **kw0), S.ConvexPolygon(V1.copy(), **kw1), {"R": R, "t": t, "s": s, "perm": perm, "cycle": True}
    size = 2 * float(np.max(np.linalg.norm(V0 - V0.mean(axis=0), axis=1)))
    r = 10.0 ** case["radius"] * size
    return (S.ConvexSpheropolygon(V0.copy(), r, **kw0), S.ConvexSpheropolygon(V1.copy(), r * s, **kw1),
            {"R": R, "t": t, "s": s, "perm": perm, "cycle": True})


POINTS = {"centroid", "center", "vertices", "face_centroids"}
VECTORS = {"normals", "normal"}
SKIP = {"planar_moments_inertia", "polar_moment_inertia", "repr", "gsd_shape_spec", "polygon", "polyhedron", "is_inside", "form_factor",
        "distance_to_surface", "dihedral", "edges", "edge_vectors", "simplices", "faces", "neighbors", "inertia_tensor", "equations"}


def _pt(p, info):
    return info["s"] * (np.asarray(p, dtype=float) @ info["R"].T) + info["t"]


def _expected(name, v, info, three):
    """Transformation rule for one canonical observable; returns NotImplemented to skip."""
    s, R = info["s"], info["R"]
    if isinstance(v, Raised):
        return v
    if name in SKIP:
        return NotImplemented
    if isinstance(v, dict) and "ball_class" in v:
        return {"ball_class": v["ball_class"], "radius": v["radius"] * s, "centre": _pt(v["centre"], info)}
    if name in POINTS:
        if isinstance(v, dict):
            return {k: _pt(p, info) for k, p in v.items()}
        return _pt(v, info)
    if name in VECTORS:
        if isinstance(v, dict):
            return {k: np.asarray(p) @ R.T for k, p in v.items()}
        return np.asarray(v, dtype=float) @ R.T
    d = observe.dimension(name, three)
    if isinstance(v, dict):
        return {k: np.asarray(p, dtype=float) * s**d for k, p in v.items()}
    try:
        return np.asarray(v, dtype=float) * s**d
    except Exception:
        return NotImplemented


def _relabel_canonical(obs, perm):
    """Express label-dependent outputs of g.x in the labels of x (vertex j of g.x is vertex perm[j] of x)."""
    out = dict(obs)
    faces = obs.get("faces")
    if faces is not None and not isinstance(faces, Raised):
        out["faces"] = [[perm[int(i)] for i in f_] for f_ in faces]
    v = obs.get("vertices")
    if v is not None and not isinstance(v, Raised):
        V = np.asarray(v, dtype=float)
        W = np.empty_like(V)
        W[perm] = V
        out["vertices"] = W
    for k in ("edges", "simplices", "edge_vectors", "edge_lengths"):
        out.pop(k, None)
    return out


def _boundary_distance(x, P):
    """Distance of probe points from the boundary of x (geometry by the harness; rounded shapes: from the rounded surface)."""
    V = np.asarray(x.vertices, dtype=float)
    r = float(getattr(x, "radius", 0.0) or 0.0)
    if isinstance(x, (S.Polygon,)):
        n = np.asarray(x.normal, dtype=float)
        u, v, _ = geom.plane_frame(n)
        xy = np.stack([(V - V[0]) @ u, (V - V[0]) @ v], axis=1)
        p2 = np.stack([(P - V[0]) @ u, (P - V[0]) @ v], axis=1)
        return geom.segment_distance_2d(p2, xy, np.roll(xy, -1, axis=0)).min(axis=1)
    if isinstance(x, S.ConvexSpheropolyhedron):
        F = [list(map(int, f_)) for f_ in x.polyhedron.faces]
    else:
        F = [list(map(int, f_)) for f_ in x.faces]
    d = geom.mesh_distance(P, V, F)
    return np.abs(d - r) if r > 0 else d


def _existence_decisive(x, name):
    """Is the existence of the circum-/in-ball of x clear-cut (misfit < 1e-10 or >= 1e-2, as in C13)?"""
    from checks.c13 import fit_circumball, fit_inball

    V = np.asarray(x.vertices, dtype=float)
    if name.startswith("circum"):
        m = fit_circumball(V)[2]
    elif isinstance(x, S.Polyhedron):
        f_, nrm, off, _ = geom.convex_facets(V)
        m = fit_inball(nrm, off - nrm @ V.mean(axis=0))[2]
    else:
        return False
    return m < 1e-10 or m >= 1e-2


def _thr_sig(Q, normals):
    q2 = np.einsum("ij,ij->i", Q, Q)
    zero = np.isclose(q2, 0)
    inpl = np.zeros(len(Q), dtype=bool)
    for nn in normals:
        qp = Q - (Q @ nn)[:, None] * nn[None, :]
        inpl |= np.isclose(np.einsum("ij,ij->i", qp, qp), 0)
    return zero, inpl & ~zero


def _face_normals(x):
    if isinstance(x, S.Polygon):
        return [np.asarray(x.normal, dtype=float)]
    if isinstance(x, S.Polyhedron):
        return [np.asarray(n_, dtype=float) for n_ in x.normals]
    return []


def _run(case, rec):
    kind = case["kind"]
    built = call(_build_pair, case)
    sig = {"cls": kind}
    if isinstance(built, Raised):
        # the construction itself is covariant or it is not: find out which side failed
        rec.fail("construct_pair", dict(sig, type=built.type), msg=built.msg)
        return
    x, gx, info = built
    s, R, t = info["s"], info["R"], info["t"]
    three = observe.is3d(x)
    has_v = hasattr(type(x), "vertices")
    L = max(maxnorm(gx.vertices), maxnorm(x.vertices) * s) if has_v else float(np.linalg.norm(gx.centroid)) + float(getattr(gx, "radius", 0) or max(getattr(gx, "a", 0), getattr(gx, "b", 0)))
    size0 = (2 * float(np.max(np.linalg.norm(x.vertices - np.mean(x.vertices, axis=0), axis=1)))) if has_v else 1.0
    ang = math.acos(max(-1.0, min(1.0, (np.trace(R) - 1) / 2)))
    rel = bool(info.get("perm") is not None and info["perm"] != sorted(info["perm"]))
    rec.concrete = {"kind": kind, "x": repr(x)[:300], "s": s, "t": t, "angle": ang}
    rec.label("cls:" + kind, "scaled>=10x" if abs(math.log10(s)) >= 1 else None, "small_scale" if s <= 1e-2 else None, "rotated" if ang >= 0.1 else None,
              "translated>=1D" if np.linalg.norm(t) >= size0 * s else None, "relabelled" if rel else None,
              "axis_aligned_base" if (kind == "Polyhedron" and case["mesh"]["kind"] == "voxel") or (kind == "Polygon" and case["poly"]["kind"].startswith("lattice")) else None)
    rec.nontrivial = abs(math.log10(s)) >= 1 or ang >= 0.1 or np.linalg.norm(t) >= size0 * s or rel
    skip = ("minimal_bounding_sphere", "minimal_bounding_sphere_radius", "minimal_bounding_circle", "minimal_bounding_circle_radius")
    ox = observe.observe(x, with_queries=False)
    og = observe.observe(gx, with_queries=False)
    if info.get("perm") is not None:
        og = _relabel_canonical(og, info["perm"])
    if info.get("cycle"):
        # convex polygon classes reorder their vertices from the first input vertex: compare the vertex sets
        for o_ in (ox, og):
            if "vertices" in o_ and not isinstance(o_["vertices"], Raised):
                o_["vertices"] = np.array(sorted(map(tuple, np.round(np.asarray(o_["vertices"]) / max(L, 1e-300), 9))))
        if "vertices" in ox and not isinstance(ox["vertices"], Raised):
            Vx = np.asarray(x.vertices, dtype=float)
            ox["vertices"] = np.array(sorted(map(tuple, np.round(_pt(Vx, info) / max(L, 1e-300), 9))))
            ox["_vertices_done"] = True
    cx = observe.canonical(ox)
    cg = observe.canonical(og)
    for name in sorted(set(cx) | set(cg)):
        if name.startswith("_") or name in skip:
            continue
        if name not in cx or name not in cg:
            continue
        if name == "vertices" and ox.get("_vertices_done"):
            observe._cmp(rec, name, cg[name], cx[name], 1.0, three, sig, "covariant_", 1e-6)
            continue
        want = _expected(name, cx[name], info, three)
        if want is NotImplemented:
            continue
        if isinstance(want, Raised) or isinstance(cg[name], Raised):
            a = want.type if isinstance(want, Raised) else "value"
            b = cg[name].type if isinstance(cg[name], Raised) else "value"
            if a != b and name.startswith(("circumsphere", "circumcircle", "insphere", "incircle")) and not _existence_decisive(x, name):
                rec.label("ball_existence_undecided")
                continue
            rec.check(a == b, "covariant_equal", dict(sig, obs=name, x=a, gx=b), x=repr(cx[name])[:100], gx=repr(cg[name])[:100])
            continue
        # circum-/in-balls "exist" up to a relative residual of 1e-4 (least squares about the first vertex), so for a
        # nearly cyclic/tangential shape the returned ball depends on the labelling at that level: a decision boundary
        fuzzy = name.startswith(("circumsphere", "circumcircle", "insphere", "incircle"))
        observe._cmp(rec, name, cg[name], want, L, three, sig, "covariant_", 3e-4 if fuzzy else 1e-7)
    # faces as vertex sets (in x's labels)
    if "faces" in cx and not isinstance(cx.get("faces"), Raised) and not isinstance(cg.get("faces"), Raised):
        rec.check(set(cx["faces"]) == set(cg["faces"]), "covariant_faces", sig)
    # equations: normal rotates, offset -> s d - n'.t
    for key in ("equations",):
        if key in cx and key in cg and not isinstance(cx[key], Raised) and not isinstance(cg[key], Raised) and isinstance(cx[key], dict):
            for k, e in cx[key].items():
                if k in cg[key]:
                    n2 = np.asarray(e[:3]) @ R.T
                    d2 = s * e[3] - float(n2 @ t)
                    rec.close("covariant_equations", cg[key][k], np.r_[n2, d2], 1e-7 * max(L, 1.0), dict(sig, obs="equations"))
    # inertia tensor: s^5 R I_c R^T + parallel axis (3-D), s^4 for 2-D shapes
    it_x, it_g = ox.get("inertia_tensor"), og.get("inertia_tensor")
    if it_x is not None and it_g is not None and not isinstance(it_x, Raised) and not isinstance(it_g, Raised) \
            and not isinstance(x, (S.Circle, S.Ellipse)):  # those document the form diag(0, 0, polar moment) (checked in C10)
        meas = "volume" if three else "area"
        m_x = call(getattr, x, meas)
        c_x = call(getattr, x, "centroid") if not isinstance(x, (S.ConvexSpheropolygon, S.ConvexSpheropolyhedron)) else Raised(ValueError())
        if not isinstance(m_x, Raised) and not isinstance(c_x, Raised):
            c_x = np.asarray(c_x, dtype=float)
            d = 5 if three else 4
            Ic = np.asarray(it_x, dtype=float) - m_x * (np.dot(c_x, c_x) * np.eye(3) - np.outer(c_x, c_x))
            c2 = _pt(c_x, info)
            m2 = m_x * s ** (3 if three else 2)
            want = s**d * (R @ Ic @ R.T) + m2 * (np.dot(c2, c2) * np.eye(3) - np.outer(c2, c2))
            rec.close("covariant_inertia_tensor", it_g, want, 1e-7 * max(m2 * L * L, 1e-300), dict(sig, obs="inertia_tensor"))
    # containment, form factor
    if has_v and not isinstance(x, S.ConvexSpheropolygon):
        P, _ = observe.probe_points(x.vertices, float(getattr(x, "radius", 0.0) or 0.0))
        if isinstance(x, S.Polygon):
            # probes sharing one coordinate bit-for-bit with a vertex, inside and beyond the bounding box:
            # an axis-aligned polygon must behave like its rotated copy
            Vx = np.asarray(x.vertices, dtype=float)
            u_, v_, _n = geom.plane_frame(np.asarray(x.normal, dtype=float))
            lo, hi = Vx.min(axis=0), Vx.max(axis=0)
            ext = []
            for w in Vx[:8]:
                for k in range(3):
                    for fr in (-0.3, 0.21, 0.47, 0.83, 1.3):
                        q_ = lo + fr * (hi - lo)
                        q_[k] = w[k]
                        q_ = q_ - np.dot(q_ - Vx[0], _n) * _n  # back into the plane
                        if abs(np.dot(np.eye(3)[k], _n)) < 1e-12:
                            q_[k] = w[k]
                        ext.append(q_)
            P = np.vstack([P, np.array(ext)])
        P = P[_boundary_distance(x, P) > 1e-6 * size0]
        a = call(x.is_inside, P.copy())
        b = call(gx.is_inside, _pt(P, info))
        if isinstance(a, Raised) or isinstance(b, Raised):
            ta = a.type if isinstance(a, Raised) else "value"
            tb = b.type if isinstance(b, Raised) else "value"
            rec.check(ta == tb, "covariant_is_inside", dict(sig, x=ta, gx=tb), x_msg=repr(a)[:100], gx_msg=repr(b)[:100])
        else:
            rec.check(np.array_equal(np.asarray(a), np.asarray(b)), "covariant_is_inside", sig, differing=int(np.sum(np.asarray(a) != np.asarray(b))))
    if isinstance(x, (S.Polygon, S.Polyhedron, S.Sphere)) and not isinstance(x, S.ConvexSpheropolyhedron):
        q = np.array([[0.7, -0.4, 0.9], [2.1, 1.3, -0.6], [-3.0, 0.2, 1.7]]) / size0
        q2 = (q @ R.T) / s
        a = call(x.compute_form_factor_amplitude, q.copy())
        b = call(gx.compute_form_factor_amplitude, q2.copy())
        if isinstance(a, Raised) or isinstance(b, Raised):
            ta = a.type if isinstance(a, Raised) else "value"
            tb = b.type if isinstance(b, Raised) else "value"
            rec.check(ta == tb, "covariant_form_factor", dict(sig, x=ta, gx=tb))
        else:
            d = 3 if three else 2
            tt = t if three else t - np.dot(t, R @ np.asarray(x.normal)) * (R @ np.asarray(x.normal))
            want = s**d * np.exp(-1j * (q2 @ tt)) * np.asarray(a)
            F0 = abs(s**d * float(call(getattr, x, "volume" if three else "area")))
            # rows where one of the implementation's absolute small-q tests fires on either side are named after it
            z1, i1 = _thr_sig(q, _face_normals(x))
            z2, i2 = _thr_sig(q2, _face_normals(gx))
            for row in range(len(q)):
                thr = "zero_q_sq_below_1e-8" if (z1[row] or z2[row]) else ("inplane_q_sq_below_1e-8" if (i1[row] or i2[row]) else "none")
                rec.close("covariant_form_factor", np.asarray(b)[row], want[row], 1e-6 * F0, dict(sig, absolute_threshold=thr))
    if isinstance(x, (S.Circle, S.Ellipse)):
        ang_ = np.array([0.0, 0.7, 2.0, -1.1, 5.0])
        a = call(x.distance_to_surface, ang_.copy())
        b = call(gx.distance_to_surface, ang_.copy())
        if not isinstance(a, Raised) and not isinstance(b, Raised):
            rec.close("covariant_distance_to_surface", b, s * np.asarray(a), 1e-9 * s * float(np.max(a)), sig)


# ------------------------------------------------- ear clipping under scaling (also the atheris target)
_TILTS = [np.eye(3), geom.rotation_from_quaternion(np.array([0.9, 0.3, -0.2, 0.25])),
          geom.rotation_from_quaternion(np.array([0.5, 0.5, 0.5, 0.5])), geom.rotation_from_quaternion(np.array([0.2, -0.7, 0.6, 0.1]))]


@st.composite
def _ext_case(draw):
    n = draw(st.integers(3, 9))
    pts = draw(st.lists(st.tuples(st.integers(0, 7), st.integers(0, 7)), min_size=n, max_size=n, unique=True))
    return {"pts": [list(p) for p in pts], "logs": draw(st.sampled_from([k / 2.0 for k in range(-6, 7)])), "tilt": draw(st.integers(0, 3)),
            "shift": [draw(st.integers(0, 8)), draw(st.integers(0, 8)), draw(st.integers(0, 3))]}


def _lattice_extrusion(case, rec):
    """A prism over an integer polygon whose caps are handed over as (possibly non-convex) faces, so that the
    ear clipper is exercised; compared with its scaled and rotated copy."""
    pts = [tuple(int(v) for v in p) for p in case["pts"]]
    if len(pts) < 3 or len(set(pts)) != len(pts):
        return
    if not geom.is_simple_polygon_2d(pts):  # construct, don't reject: 2-opt uncrossing of the drawn cycle
        pts = [tuple(int(v) for v in p) for p in gp._untangle(np.array(pts, dtype=float))]
    pts = gp._dedupe_collinear_int(pts)
    n = len(pts)
    if n < 3 or not geom.is_simple_polygon_2d(pts):
        return
    A2 = sum(pts[i][0] * pts[(i + 1) % n][1] - pts[(i + 1) % n][0] * pts[i][1] for i in range(n))
    if A2 == 0:
        return
    if A2 < 0:
        pts = pts[::-1]
    # no collinear triples (a degenerate corner is not a vertex of the polygon)
    for i in range(n):
        a, b, c_ = pts[i - 1], pts[i], pts[(i + 1) % n]
        if (b[0] - a[0]) * (c_[1] - b[1]) - (b[1] - a[1]) * (c_[0] - b[0]) == 0:
            return
    # a vertex lying exactly on the segment between two other vertices puts it on the edge of a candidate ear:
    # whether the ear is accepted is then decided by rounding (a decision boundary of ear clipping) - not generated
    for i in range(n):
        for j in range(n):
            for k in range(j + 1, n):
                if i in (j, k):
                    continue
                p, a, b = pts[i], pts[j], pts[k]
                if (a[0] - p[0]) * (b[1] - p[1]) - (a[1] - p[1]) * (b[0] - p[0]) == 0 and \
                        min(a[0], b[0]) <= p[0] <= max(a[0], b[0]) and min(a[1], b[1]) <= p[1] <= max(a[1], b[1]):
                    rec.label("vertex_on_a_diagonal_skipped")
                    return
    xy = np.array(pts, dtype=float)
    V0 = np.vstack([np.c_[xy, np.zeros(n)], np.c_[xy, np.full(n, 2.0)]])
    F = [list(range(n))[::-1], [i + n for i in range(n)]] + [[i, (i + 1) % n, (i + 1) % n + n, i + n] for i in range(n)]
    s = 10.0 ** case["logs"]
    R = _TILTS[case["tilt"] % 4]
    t = np.array([0.3, -0.2, 0.1]) * s
    V1 = s * (V0 @ R.T) + t
    info = {"s": s, "R": R, "t": t}
    convex = bool(np.all([(pts[i][0] - pts[i - 1][0]) * (pts[(i + 1) % n][1] - pts[i][1]) - (pts[i][1] - pts[i - 1][1]) * (pts[(i + 1) % n][0] - pts[i][0]) > 0
                          for i in range(n)]))
    sig = {"cls": "Polyhedron", "caps": "convex" if convex else "nonconvex"}
    rec.concrete = {"polygon": pts, "scale": s, "tilt": case["tilt"]}
    rec.label("caps:" + sig["caps"], "scale!=1" if s != 1 else None, "small_scale" if s < 0.1 else None)
    rec.nontrivial = (not convex) and s != 1
    # the copy also lists every face starting from another of its vertices (a relabelling the property names)
    sh = case.get("shift", [0, 0, 0])
    F1 = [f_[sh[min(k, 2)] % len(f_):] + f_[:sh[min(k, 2)] % len(f_)] for k, f_ in enumerate(F)]
    if F1 != F:
        rec.label("faces_cyclically_shifted")
    x = call(S.Polyhedron, V0.copy(), [np.array(f_) for f_ in F], convex)
    gx = call(S.Polyhedron, V1.copy(), [np.array(f_) for f_ in F1], convex)
    if isinstance(x, Raised) or isinstance(gx, Raised):
        rec.check(isinstance(x, Raised) and isinstance(gx, Raised), "covariant_construct", sig, x=repr(x)[:80], gx=repr(gx)[:80])
        return
    cx, cg = call(getattr, x, "centroid"), call(getattr, gx, "centroid")
    if isinstance(cx, Raised) or isinstance(cg, Raised):
        a = cx.type if isinstance(cx, Raised) else "value"
        b = cg.type if isinstance(cg, Raised) else "value"
        rec.check(a == b, "covariant_centroid", dict(sig, x=a, gx=b), x_msg=repr(cx)[:100], gx_msg=repr(cg)[:100])
    else:
        rec.close("covariant_centroid", cg, _pt(cx, info), 1e-9 * s * 12, sig)
        # and against the exact value: polygon centroid, mid height
        A, gx_, gy_, *_ = geom.polygon_xy_moments(xy)
        rec.close("extrusion_centroid_exact", cx, [gx_, gy_, 1.0], 1e-9 * 12, sig)
    P = np.array([[i + 0.5, j + 0.25, z] for i in range(-1, 8, 2) for j in range(-1, 8, 2) for z in (-0.5, 0.7, 1.3, 2.5)])
    P = P[geom.segment_distance_2d(P[:, :2], xy, np.roll(xy, -1, axis=0)).min(axis=1) > 1e-6]
    a, b = call(x.is_inside, P.copy()), call(gx.is_inside, _pt(P, info))
    if isinstance(a, Raised) or isinstance(b, Raised):
        ta = a.type if isinstance(a, Raised) else "value"
        tb = b.type if isinstance(b, Raised) else "value"
        rec.check(ta == tb, "covariant_is_inside", dict(sig, x=ta, gx=tb), x_msg=repr(a)[:100], gx_msg=repr(b)[:100])
    else:
        want = geom.crossing_number_inside(P[:, :2], xy) & (P[:, 2] > 0) & (P[:, 2] < 2)
        rec.check(np.array_equal(np.asarray(b), want), "covariant_is_inside", sig, differing=int(np.sum(np.asarray(b) != want)))
        rec.check(np.array_equal(np.asarray(a), want), "extrusion_is_inside_exact", sig, differing=int(np.sum(np.asarray(a) != want)))


def fuzz_targets():
    seeds = [bytes([2, 30, 0, 7, 63, 56, 27, 1]), bytes([4, 5, 0, 3, 27, 24, 60, 57, 2])]
    return [{"clause": "lattice_extrusion", "decoder": "scaled_extrusion", "runs_quick": 2000, "runs_thorough": 150000, "seeds": seeds, "max_len": 24}]


def clauses():
    q = {"ConvexPolyhedron": 220, "Polyhedron": 120, "ConvexSpheropolyhedron": 120, "Polygon": 900, "ConvexPolygon": 250, "ConvexSpheropolygon": 200,
         "Circle": 120, "Ellipse": 120, "Sphere": 120, "Ellipsoid": 120}
    return [Clause("covariance_" + k, _case(k), _run, quick=q[k] * 2, thorough=q[k] * 40, rule="x vs g.x for " + k,
                   floors={"scaled>=10x": 0.1}) for k in KINDS] + [
        Clause("lattice_extrusion", _ext_case(), _lattice_extrusion, quick=1500, thorough=30000,
               rule="prisms over integer polygons with (non-convex) cap faces vs their scaled/rotated copies and the exact centroid/membership",
               floors={})]
