"""C17 - parametric shape families generate exactly the documented shapes."""
import itertools
import math
import warnings

import numpy as np
from hypothesis import strategies as st

from checks.common import S, Raised, call, get
from gen import zoo
from harness.runner import Clause
from oracle import geom

RULE = ("Generated: (a, c) in each truncation family's rectangle (grid incl. edges and corners + drawn points + points within "
        "1e-3..1e-9 of the edges), truncation in [0,1], out-of-domain values on every side incl. nan; n in 3..200 for n-gons, "
        "prisms, antiprisms; n in {3,4,5} for pyramids/dipyramids (inadmissible n are not asserted: the property does not specify them). Oracle: the plane sets are regenerated from symmetry "
        "(orbits of the tetrahedral/octahedral/icosahedral rotation groups; compared with the family's tables), the exact "
        "half-space intersection is enumerated from all plane triples and cross-checked against scipy HalfspaceIntersection; "
        "result must be a ConvexPolyhedron within Hausdorff distance 1e-6*size of it, or ValueError - the latter only if exact "
        "vertices come closer than 1e-3*size; corners give the documented solids; outside the domain ValueError. Closed forms for "
        "the uniform families. Non-trivial: interior parameter points, points within 1e-3 of a domain edge, n >= 33.")
ASSUMPTIONS = ["'well separated' = pairwise vertex distance of the exact intersection >= 1e-3 of its diameter"]

GOLD = (1 + math.sqrt(5)) / 2


# ------------------------------------------------------------------ symmetry-generated planes
def _closure(gens):
    mats = [np.eye(3)]
    frontier = [np.eye(3)]
    while frontier:
        new = []
        for m in frontier:
            for g in gens:
                p = g @ m
                if not any(np.allclose(p, q, atol=1e-9) for q in mats):
                    mats.append(p)
                    new.append(p)
        frontier = new
    return mats


def _rot(axis, ang):
    a = np.asarray(axis, dtype=float)
    a /= np.linalg.norm(a)
    K = np.array([[0, -a[2], a[1]], [a[2], 0, -a[0]], [-a[1], a[0], 0]])
    return np.eye(3) + math.sin(ang) * K + (1 - math.cos(ang)) * (K @ K)


def _orbit(group, v):
    out = []
    for g in group:
        w = g @ np.asarray(v, dtype=float)
        if not any(np.allclose(w, u, atol=1e-9) for u in out):
            out.append(w)
    return np.array(out)


_PLANES = {}


def planes(fam):
    """(normals (N,3), types (N,)) with type 0=a, 1=b, 2=c, from symmetry alone."""
    if fam in _PLANES:
        return _PLANES[fam]
    c3 = np.array([[0, 0, 1], [1, 0, 0], [0, 1, 0]], dtype=float)  # cyclic permutation: 3-fold about (1,1,1)
    c2z = np.diag([-1.0, -1.0, 1.0])
    if fam == "323":
        G = _closure([c3, c2z])  # tetrahedral rotation group, order 12
        assert len(G) == 12
        parts = [(_orbit(G, [1, 1, -1]), 0), (_orbit(G, [1, 0, 0]), 1), (_orbit(G, [1, 1, 1]), 2)]
    elif fam == "423":
        c4z = _rot([0, 0, 1], math.pi / 2)
        G = _closure([c3, c4z])
        assert len(G) == 24
        parts = [(_orbit(G, [1, 0, 0]), 0), (_orbit(G, [1, 1, 0]), 1), (_orbit(G, [1, 1, 1]), 2)]
    else:
        s = 1 / GOLD
        c5 = _rot([1, 0, s], 2 * math.pi / 5)  # 5-fold axis through an icosahedron vertex direction
        G = _closure([c3, c5])
        assert len(G) == 60, len(G)
        parts = [(_orbit(G, [1, 0, s]), 0), (_orbit(G, [2, 0, 0]), 1), (_orbit(G, [GOLD, GOLD, GOLD]), 2)]
    N = np.vstack([p for p, _ in parts])
    T = np.concatenate([np.full(len(p), t) for p, t in parts])
    _PLANES[fam] = (N, T)
    return N, T


def exact_vertices(fam, a, b, c):
    """Vertices of {x: n_i.x <= d_i} by enumerating plane triples (float64, pivoted solves)."""
    N, T = planes(fam)
    d = np.array([a, b, c], dtype=float)[T]
    idx = np.array(list(itertools.combinations(range(len(N)), 3)))
    A = N[idx]
    det = np.linalg.det(A)
    ok = np.abs(det) > 1e-9
    X = np.linalg.solve(A[ok], d[idx[ok]][..., None])[..., 0]
    feas = np.all(X @ N.T <= d[None, :] + 1e-9 * max(a, b, c), axis=1)
    X = X[feas]
    # merge candidates that coincide to rounding (the same vertex reached through different plane triples); candidates
    # that are merely *close* (e.g. 2e-9 apart next to a domain edge) stay separate: they are what "well separated" is about
    out = []
    for x in X:
        if not any(np.linalg.norm(x - y) < 1e-12 * max(a, b, c) for y in out):
            out.append(x)
    return np.array(out)


def hausdorff(A, B):
    D = np.linalg.norm(A[:, None, :] - B[None, :, :], axis=2)
    return max(D.min(axis=1).max(), D.min(axis=0).max())


FAMS = {
    "323": ("Family323Plus", (1.0, 3.0), (1.0, 3.0), 1.0),
    "423": ("Family423", (1.0, 2.0), (2.0, 3.0), 2.0),
    "523": ("Family523", (1.0, math.sqrt(5) / GOLD), (GOLD**2, 3.0), 2.0),
}
CORNERS = {
    "323": {(0, 0): (6, 12, 8), (1, 0): (4, 6, 4), (0, 1): (4, 6, 4), (1, 1): (8, 12, 6)},
    "423": {(0, 0): (12, 24, 14), (1, 0): (6, 12, 8), (0, 1): (8, 12, 6), (1, 1): (14, 24, 12)},
    "523": {(0, 0): (30, 60, 32), (1, 0): (12, 30, 20), (0, 1): (20, 30, 12), (1, 1): (32, 60, 30)},
}


def _domain(fam):
    from coxeter import families as F

    cls = getattr(F, FAMS[fam][0])
    if fam == "523":
        return cls, (1.0, float(cls.s * np.sqrt(5))), (float(cls.S**2), 3.0), 2.0
    return cls, FAMS[fam][1], FAMS[fam][2], FAMS[fam][3]


@st.composite
def _pcase(draw, fam):
    mode = draw(st.sampled_from(["grid", "free", "free", "edge", "corner", "outside"]))
    c = {"fam": fam, "mode": mode}
    if mode == "grid":
        c["u"] = [draw(st.integers(0, 40)) / 40.0, draw(st.integers(0, 40)) / 40.0]
    elif mode == "free":
        c["u"] = [draw(zoo.f(0, 1)), draw(zoo.f(0, 1))]
    elif mode == "edge":
        e = 10.0 ** draw(zoo.f(-9, -3))
        which = draw(st.integers(0, 3))
        t = draw(zoo.f(0, 1))
        c["u"] = [[e, t], [1 - e, t], [t, e], [t, 1 - e]][which]
    elif mode == "corner":
        c["u"] = [float(draw(st.integers(0, 1))), float(draw(st.integers(0, 1)))]
    else:
        which = draw(st.integers(0, 5))
        e = 10.0 ** draw(zoo.f(-12, 1))
        t = draw(zoo.f(0, 1))
        c["u"] = [[-e, t], [1 + e, t], [t, -e], [t, 1 + e], [float("nan"), t], [t, float("nan")]][which]
    c["trunc"] = draw(st.booleans()) and fam == "323"
    return c


def _params(case):
    fam = case["fam"]
    cls, (a0, a1), (c0, c1), b = _domain(fam)
    u, v = case["u"]
    a = a0 + u * (a1 - a0) if u not in (0.0, 1.0) else (a0 if u == 0.0 else a1)
    c = c0 + v * (c1 - c0) if v not in (0.0, 1.0) else (c0 if v == 0.0 else c1)
    return cls, a, b, c, (a0, a1), (c0, c1)


def _plane_family(case, rec):
    fam = case["fam"]
    cls, a, b, c, (a0, a1), (c0, c1) = _params(case)
    sig = {"family": fam, "mode": case["mode"]}
    trunc = case["trunc"]
    if trunc:
        # TruncatedTetrahedronFamily(t) = Family323Plus(a=1, c=3-2t)
        from coxeter.families import TruncatedTetrahedronFamily as TT

        t = case["u"][1]
        a = 1.0
        c = 3 - 2 * t if np.isfinite(t) else float("nan")
        indom = bool(np.isfinite(t) and 0 <= t <= 1)
        res = call(TT.get_shape, t)
        sig["family"] = "trunc_tet"
        rec.concrete = {"family": "TruncatedTetrahedronFamily", "truncation": t}
    else:
        indom = bool(a0 <= a <= a1 and c0 <= c <= c1)
        res = call(cls.get_shape, a, c)
        rec.concrete = {"family": FAMS[fam][0], "a": a, "c": c}
    rec.label("family:" + sig["family"], "mode:" + case["mode"], "in_domain" if indom else "out_of_domain")
    if not indom:
        rec.nontrivial = True
        rec.check(isinstance(res, Raised) and res.type == "ValueError", "outside_domain_raises_ValueError", sig, got=repr(res)[:100])
        return
    X = exact_vertices(fam, a, b, c)
    size = 2 * float(np.max(np.linalg.norm(X, axis=1)))
    D = np.linalg.norm(X[:, None, :] - X[None, :, :], axis=2) + np.eye(len(X)) * 1e9
    sep = float(D.min()) / size
    u, v = case["u"]
    interior = 0 < u < 1 and 0 < v < 1
    rec.label("well_separated" if sep >= 1e-3 else "near_degenerate", "interior" if interior else "boundary")
    rec.nontrivial = interior or case["mode"] == "edge"
    if isinstance(res, Raised):
        rec.check(res.type == "ValueError", "only_ValueError", sig, got=repr(res)[:100])
        rec.check(sep < 1e-3, "succeeds_where_vertices_well_separated", sig, separation=sep, error=res.msg)
        return
    if not rec.check(type(res) is S.ConvexPolyhedron, "returns_ConvexPolyhedron", sig, got=repr(type(res))):
        return
    V = np.asarray(res.vertices, dtype=float)
    h = hausdorff(V, X)
    rec.check(h <= 1e-6 * size, "is_the_halfspace_intersection", sig, hausdorff=h / size, nverts=len(V), exact=len(X))
    # the family must hand out the same shape again, whatever the caller did to the first object
    call(setattr, res, "volume", 8.0 * float(res.volume))
    call(setattr, res, "centroid", np.array([5.0, -3.0, 2.0]) * size)
    res2 = call(TT.get_shape, t) if trunc else call(cls.get_shape, a, c)
    if isinstance(res2, Raised):
        rec.fail("second_call_raised", dict(sig, type=res2.type), msg=res2.msg)
    else:
        h2 = hausdorff(np.asarray(res2.vertices, dtype=float), X)
        rec.check(h2 <= 1e-6 * size, "second_call_unaffected_by_mutating_first_result", sig, hausdorff=h2 / size)
    res = res2 if not isinstance(res2, Raised) else res
    if case["mode"] == "corner":
        want = CORNERS[fam][(int(u), int(v))] if not trunc else {0.0: (4, 6, 4), 1.0: (6, 12, 8)}.get(v)
        if want:
            got = (get(res, "num_vertices"), get(res, "num_edges"), get(res, "num_faces"))
            rec.check(got == want, "documented_solid_at_corner", sig, got=list(got), want=list(want))
            L = np.asarray(get(res, "edge_lengths"))
            rec.close("corner_solid_equal_edges", L, np.full_like(L, L.mean()), 1e-9 * L.mean(), sig)


# --------------------------------------------------------------------- uniform families
def _uniform_cases(tier):
    out = [{"fam": f, "n": n} for f in ("ngon", "prism", "antiprism") for n in range(3, 201)]
    out += [{"fam": f, "n": n} for f in ("pyramid", "dipyramid") for n in (3, 4, 5)]
    out += [{"fam": f, "n": n, "ntype": t} for f in ("ngon", "prism", "antiprism") for n in (3, 4, 7, 12, 50) for t in ("int64", "int32")]
    out += [{"fam": f, "n": n, "ntype": "int64"} for f in ("pyramid", "dipyramid") for n in (3, 4, 5)]
    return out


def _ring_ok(rec, ring, n, sig, first_on_x):
    ang = np.arctan2(ring[:, 1], ring[:, 0])
    r = np.linalg.norm(ring[:, :2], axis=1)
    rec.close("ring_equal_radius", r, np.full(n, r.mean()), 1e-12 * r.mean(), sig)
    if first_on_x:
        rec.check(ring[0, 1] == 0 and ring[0, 0] > 0, "first_vertex_on_plus_x", sig, v0=ring[0])
    d = np.mod(np.diff(np.concatenate([ang, ang[:1]])), 2 * np.pi)
    rec.close("ring_equal_angles_ccw", d, np.full(n, 2 * np.pi / n), 1e-9, sig)


def _uniform(case, rec):
    from coxeter import families as F

    fam, n = case["fam"], case["n"]
    sig = {"family": fam}
    cls = {"ngon": F.RegularNGonFamily, "prism": F.UniformPrismFamily, "antiprism": F.UniformAntiprismFamily,
           "pyramid": F.UniformPyramidFamily, "dipyramid": F.UniformDipyramidFamily}[fam]
    rec.concrete = {"family": fam, "n": n}
    rec.label("family:" + fam, "n>=33" if n >= 33 else None)
    rec.nontrivial = n >= 33 or fam in ("pyramid", "dipyramid")
    with warnings.catch_warnings():
        warnings.simplefilter("ignore")
        # the count may be a Python int or a numpy integer (np.arange yields those); both mean the same n
        ntype = case.get("ntype", "int")
        res = call(cls.get_shape, {"int": int, "int64": np.int64, "int32": np.int32}[ntype](n))
    if ntype != "int":
        sig["n_as"] = ntype
        rec.label("n_as:" + ntype)
    if n < 3:
        rec.nontrivial = True
        rec.check(isinstance(res, Raised) and res.type == "ValueError", "n_below_3_raises_ValueError", sig, n=n, got=repr(res)[:80])
        return
    if isinstance(res, Raised):
        rec.fail("admissible_n_raised", dict(sig, type=res.type), n=n, msg=res.msg)
        return
    V = np.asarray(res.vertices, dtype=float)
    if fam == "ngon":
        rec.check(type(res) is S.ConvexPolygon and len(V) == n, "ngon_class_and_count", sig, n=n, got=len(V))
        if len(V) != n:
            return
        rec.close("ngon_unit_area", get(res, "area"), 1.0, 1e-12, sig, n=n)
        rec.close("ngon_unit_area_shoelace", abs(geom.polygon_xy_moments(V[:, :2])[0]), 1.0, 1e-12, sig, n=n)
        rec.check(np.all(V[:, 2] == 0), "ngon_in_xy_plane", sig)
        _ring_ok(rec, V, n, sig, True)
        return
    want_nv = {"prism": 2 * n, "antiprism": 2 * n, "pyramid": n + 1, "dipyramid": n + 2}[fam]
    if not rec.check(type(res) is S.ConvexPolyhedron and len(V) == want_nv, "vertex_count", sig, n=n, got=len(V), want=want_nv):
        return
    # structural faces from the documented vertex layout (bottom ring, top ring / apexes)
    if fam in ("prism", "antiprism"):
        bot, top = V[:n], V[n:]
        _ring_ok(rec, top, n, sig, True)
        _ring_ok(rec, bot, n, sig, fam == "prism")
        rec.check(np.all(bot[:, 2] == bot[0, 2]) and np.all(top[:, 2] == top[0, 2]) and top[0, 2] > bot[0, 2], "rings_planar", sig)
        bi, ti = list(range(n)), list(range(n, 2 * n))
        faces = [bi[::-1], ti]
        if fam == "prism":
            faces += [[bi[i], bi[(i + 1) % n], ti[(i + 1) % n], ti[i]] for i in range(n)]
            edges = [(bi[i], bi[(i + 1) % n]) for i in range(n)] + [(ti[i], ti[(i + 1) % n]) for i in range(n)] + [(bi[i], ti[i]) for i in range(n)]
        else:
            faces += [[ti[i], bi[i], ti[(i + 1) % n]] for i in range(n)] + [[bi[i], bi[(i + 1) % n], ti[(i + 1) % n]] for i in range(n)]
            edges = ([(bi[i], bi[(i + 1) % n]) for i in range(n)] + [(ti[i], ti[(i + 1) % n]) for i in range(n)]
                     + [(ti[i], bi[i]) for i in range(n)] + [(bi[i], ti[(i + 1) % n]) for i in range(n)])
    else:
        base = list(range(n))
        _ring_ok(rec, V[:n], n, sig, True)
        if fam == "pyramid":
            ap = n
            faces = [base[::-1]] + [[base[i], base[(i + 1) % n], ap] for i in range(n)]
            edges = [(base[i], base[(i + 1) % n]) for i in range(n)] + [(base[i], ap) for i in range(n)]
        else:
            up, dn = n, n + 1
            faces = [[base[i], base[(i + 1) % n], up] for i in range(n)] + [[base[(i + 1) % n], base[i], dn] for i in range(n)]
            edges = [(base[i], base[(i + 1) % n]) for i in range(n)] + [(base[i], up) for i in range(n)] + [(base[i], dn) for i in range(n)]
    assert geom.mesh_is_closed_oriented(faces)
    m = geom.mesh_moments(V, faces)
    rec.close("unit_volume", m["volume"], 1.0, 1e-11, sig, n=n)
    rec.close("unit_volume_reported", get(res, "volume"), 1.0, 1e-11, sig, n=n)
    rec.close("centred_at_origin", m["centroid"], np.zeros(3), 1e-11, sig, n=n)
    rec.close("centred_at_origin_reported", get(res, "centroid"), np.zeros(3), 1e-11, sig, n=n)
    L = np.array([np.linalg.norm(V[a] - V[b]) for a, b in edges])
    rec.close("all_edges_equal", L, np.full_like(L, L.mean()), 1e-9 * L.mean(), sig, n=n)
    rec.check(get(res, "num_edges") == len(edges) and get(res, "num_faces") == len(faces), "edge_and_face_counts", sig, n=n,
              got=[get(res, "num_edges"), get(res, "num_faces")], want=[len(edges), len(faces)])


# ------------------------------------------------------- first calls in a fresh process
def _first_call_cases(tier):
    """Short call sequences, each run in its own interpreter: what a family answers must not depend on which call
    (integer- or float-typed parameters, which family) happened to be the first one in the process."""
    F = {"323": "Family323Plus", "423": "Family423", "523": "Family523"}
    intc = {"323": [(1, 1), (3, 3), (1, 3), (3, 1)], "423": [(1, 2), (2, 3), (1, 3), (2, 2)], "523": [(1, 3)]}
    flt = {"323": [(1.5, 2.5), (2.25, 1.125)], "423": [(1.5, 2.5), (1.25, 2.75)], "523": [(1.3, 2.9), (1.05, 2.8)]}
    out = []
    for fam in F:
        i0 = intc[fam][0]
        i1 = intc[fam][-1]
        f0, f1 = flt[fam]
        seqs = [[("int", i0), ("float", f0)], [("float", f0), ("int", i0)], [("npint", i1), ("float", f1), ("int", i0)],
                [("float", f0), ("float", f1)], [("int", i0), ("int", i1), ("float", f0), ("float", f1)]]
        for s in seqs:
            out.append({"fam": fam, "seq": [[k, list(p)] for k, p in s]})
    out.append({"fam": "trunc", "seq": [["int", [1]], ["float", [0.4]], ["int", [0]], ["float", [0.75]]]})
    out.append({"fam": "trunc", "seq": [["float", [0.4]], ["int", [1]]]})
    # one family's first call must not matter to a sibling either (they share the base class machinery)
    out.append({"fam": "mixed", "seq": [["int", [1, 3], "423"], ["float", [1.5, 2.5], "323"], ["float", [1.3, 2.9], "523"], ["float", [0.4], "trunc"]]})
    out.append({"fam": "mixed", "seq": [["int", [1], "trunc"], ["float", [1.5, 2.5], "423"], ["int", [1, 3], "523"], ["float", [2.25, 1.125], "323"]]})
    # the same parameter values asked of different families in turn (the answer belongs to the family, not to the numbers)
    out.append({"fam": "mixed", "seq": [["float", [1.2, 2.8], "423"], ["float", [1.2, 2.8], "523"], ["float", [1.2, 2.8], "323"], ["float", [1.2, 2.8], "423"]]})
    out.append({"fam": "mixed", "seq": [["float", [1.3, 2.7], "523"], ["float", [1.3, 2.7], "323"], ["float", [1.3, 2.7], "423"]]})
    out.append({"fam": "mixed", "seq": [["int", [1, 3], "323"], ["int", [1, 3], "423"], ["int", [1, 3], "523"]]})
    return out


def _first_calls(case, rec):
    from harness.fresh import run_fresh

    F = {"323": "Family323Plus", "423": "Family423", "523": "Family523", "trunc": "TruncatedTetrahedronFamily"}
    calls, meta = [], []
    for item in case["seq"]:
        kind, p = item[0], item[1]
        fam = item[2] if len(item) > 2 else case["fam"]
        lit = {"int": lambda x: repr(int(x)), "npint": lambda x: "np.int64(%d)" % int(x), "float": lambda x: repr(float(x))}[kind]
        calls.append("coxeter.families.%s.get_shape(%s)" % (F[fam], ", ".join(lit(x) for x in p)))
        meta.append((fam, kind, [float(x) for x in p]))
    sig = {"family": case["fam"], "level": "first_calls"}
    rec.concrete = {"calls": calls}
    rec.nontrivial = len({k for _, k, _ in meta}) > 1
    rec.label("family:" + case["fam"], "mixed_types" if rec.nontrivial else "one_type")
    res = run_fresh(calls)
    for i, ((fam, kind, p), r) in enumerate(zip(meta, res)):
        if fam == "trunc":
            fam_, a, c = "323", 1.0, 3 - 2 * p[0]
        else:
            fam_, a, c = fam, p[0], p[1]
        X = exact_vertices(fam_, a, FAMS[fam_][3], c)
        size = 2 * float(np.max(np.linalg.norm(X, axis=1)))
        s2 = dict(sig, call=i, params=kind, after=",".join(k for _, k, _ in meta[:i]) or "nothing")
        if not rec.check(isinstance(r, dict) and r.get("__shape__") == "ConvexPolyhedron", "returns_ConvexPolyhedron", s2, got=repr(r)[:120], call_src=calls[i]):
            continue
        V = np.array(r["vertices"]["__array__"], dtype=float)
        h = hausdorff(V, X)
        rec.check(h <= 1e-6 * size, "is_the_halfspace_intersection", s2, hausdorff=h / size, nverts=len(V), exact=len(X), call_src=calls[i])


def clauses():
    cl = [Clause("planes_" + f, _pcase(f), _plane_family, quick=q, thorough=t, rule="(a,c) of " + FAMS[f][0],
                 floors={"in_domain": 0.5, "out_of_domain": 0.08, "interior": 0.2})
          for f, q, t in (("323", 500, 8000), ("423", 400, 8000), ("523", 250, 6000))]
    cl.append(Clause("uniform_families", None, _uniform, quick=0, thorough=0, enumerate_cases=_uniform_cases,
                     rule="n = 3..200 exhaustively for n-gon/prism/antiprism, n in {3,4,5} for pyramid/dipyramid", floors={}))
    cl.append(Clause("first_calls_in_a_fresh_process", None, _first_calls, quick=0, thorough=0, enumerate_cases=_first_call_cases,
                     rule="22 call sequences mixing integer- and float-typed parameters and families, one fresh interpreter each", floors={}))
    return cl


def selftest():
    from scipy.spatial import HalfspaceIntersection

    from coxeter import families as F

    for fam, (name, _, _, b) in FAMS.items():
        N, T = planes(fam)
        cls = getattr(F, name)
        P, PT = np.asarray(cls.get_planes(), dtype=float), np.asarray(cls.get_plane_types())
        mine = {(tuple(np.round(n, 9)), int(t)) for n, t in zip(N, T)}
        theirs = {(tuple(np.round(n, 9)), int(t)) for n, t in zip(P, PT)}
        assert mine == theirs, f"{name}: plane table differs from the symmetry orbits: {sorted(mine ^ theirs)[:4]}"
        _, (a0, a1), (c0, c1), _ = _domain(fam)
        a, c = a0 + 0.37 * (a1 - a0), c0 + 0.61 * (c1 - c0)
        X = exact_vertices(fam, a, b, c)
        d = np.array([a, b, c])[T]
        hs = HalfspaceIntersection(np.c_[N, -d], np.zeros(3))
        Y = hs.intersections
        assert hausdorff(X, Y) < 1e-9, (fam, hausdorff(X, Y))
