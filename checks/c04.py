"""C04 - polygon area, centroid, moments and inertia tensor are exact."""
import numpy as np
from hypothesis import strategies as st

from checks import observe
from checks.common import FORMS, S, Raised, as_form, call, get, maxnorm, perm_from_noise, polygon_is_convex_ccw
from gen import poly as gp
from gen import zoo
from harness.runner import EPS, Clause
from oracle import geom

RULE = ("Generated: simple polygons (star-shaped, combs, spirals, integer rectilinear, convex, 2-opt untangled) handed over "
        "counter-clockwise or clockwise, with any cyclic shift (reflex first corner steered in), normal argument "
        "None/+n/-n/scaled list/ndarray, in-plane rotation, arbitrary plane and offset. Oracle: shoelace-type integrals in a "
        "harness-built frame (Fraction for integer polygons). Non-trivial: non-convex, or clockwise about the stored normal, "
        "or reflex first corner, or negative product of inertia, or out of the xy-plane; distinct = distinct generated case.")
ASSUMPTIONS = ["tolerance K*eps*n*L^d (L largest vertex norm), centroid additionally /area; K=1e4",
               "the expected normal is the normalised argument, or cross(v2-v1, v0-v1) normalised as documented"]
K = 1e4


@st.composite
def _case(draw, planar):
    return {"poly": draw(gp.simple_polygon(max_n=24)), "emb": draw(gp.embedding(planar_only=planar)),
            "perm": draw(zoo.noise(30)), "logs": draw(zoo.f(-8, 6)) if draw(st.integers(0, 3)) == 0 else 0.0,
            "vform": draw(st.sampled_from(FORMS))}


def _expected_normal(V, arg):
    if arg is None:
        n = np.cross(V[2] - V[1], V[0] - V[1])
    else:
        n = np.asarray(arg, dtype=float)
    return n / np.linalg.norm(n)


def _tols(V, A):
    L = maxnorm(V)
    e = K * EPS * len(V)
    return {"len": e * L, "area": e * L * L, "cen": e * L**3 / A + e * L, "m4": e * L**4}


def _measures(rec, P, V, nexp, sig, planar_plus_z, xy=None, exact=None):
    o = geom.polygon_moments(V, nexp)
    A = o["area"]
    T = _tols(V, A)
    rec.close("normal", get(P, "normal"), nexp, 1e-12, sig)
    rec.close("vertices", get(P, "vertices"), V, 0.0, sig)
    rec.close("area", get(P, "area"), A, T["area"], sig)
    sa = get(P, "signed_area")
    rec.close("signed_area", sa, o["signed_area"], T["area"], sig)
    rec.close("perimeter", get(P, "perimeter"), o["perimeter"], T["len"], sig)
    rec.close("centroid", get(P, "centroid"), o["centroid"], T["cen"], sig)
    rec.close("center", get(P, "center"), o["centroid"], T["cen"], sig)
    c = o["centroid"]
    cperp = c - np.dot(c, nexp) * nexp
    rec.close("polar_moment_inertia", get(P, "polar_moment_inertia"), o["Jc"] + A * np.dot(cperp, cperp), T["m4"], sig)
    want_I = o["Jc"] * np.outer(nexp, nexp) + A * (np.dot(c, c) * np.eye(3) - np.outer(c, c))
    rec.close("inertia_tensor", get(P, "inertia_tensor"), want_I, T["m4"], sig)
    if planar_plus_z:
        if exact is not None:
            Ae, cx, cy, Ix, Iy, Ixy = (float(t) for t in exact)
        else:
            Ae, cx, cy, Ix, Iy, Ixy = geom.polygon_xy_moments(xy)
        pm = get(P, "planar_moments_inertia")
        if isinstance(pm, Raised):
            rec.fail("planar_moments_inertia", dict(sig, type=pm.type), msg=pm.msg)
        else:
            rec.close("planar_Ix", pm[0], Ix, T["m4"], sig)
            rec.close("planar_Iy", pm[1], Iy, T["m4"], sig)
            rec.close("planar_Ixy", pm[2], Ixy, T["m4"], dict(sig, ixy_sign="neg" if Ixy < 0 else "pos"))
            rec.label("Ixy<0" if Ixy < 0 else "Ixy>=0")
            if exact is not None:
                rec.close("area_exact", get(P, "area"), abs(Ae), T["area"], sig)
                rec.close("centroid_exact", np.asarray(get(P, "centroid"))[:2], [cx, cy], T["cen"], sig)
    return o


def _run(case, rec, planar):
    xy = gp.build_polygon_xy(case["poly"])
    e = case["emb"]
    logs = case.get("logs", 0.0)  # uniform scale 10^U(-8,6) in a quarter of the cases (tolerances are scale-free)
    if planar and case.get("vform") in ("int64", "int32", "float32") and case["poly"]["kind"] in ("lattice", "lattice_free"):
        # integer / float32 vertex arrays are only handed over when they hold the values exactly: keep the lattice polygon
        # on the lattice (no in-plane rotation, integer offset, no scaling)
        e = dict(e, inplane=0.0, offset2=[float(round(t)) for t in e["offset2"]])
        logs = 0.0
    em = gp.embed(xy, e)
    if logs > 5.0 and e["place"] is not None:
        # tilted planes only up to 1e5: beyond, the rounded coordinates (and the normal taken from a possibly flat first
        # corner) miss Polygon's documented planarity test |n.v - d| <= 1e-8 + planar_tolerance*|d| for rounding alone
        logs = 5.0
    scale = 10.0 ** logs
    xy = xy * scale
    V, arg = em["verts"] * scale, em["normal_arg"]
    nexp = _expected_normal(V, arg)
    o0 = geom.polygon_moments(V, nexp)
    cw_about_normal = o0["signed_area"] < 0
    kind = case["poly"]["kind"]
    convex = polygon_is_convex_ccw(xy)
    inplane = bool(abs(abs(nexp[2]) - 1) < 1e-12 and np.all(V[:, 2] == 0))
    plus_z = inplane and nexp[2] > 0
    default_flipped = arg is None and np.dot(nexp, em["nplus"]) * (-1 if em["cw"] else 1) < 0
    sig = {"orient": "cw_about_normal" if cw_about_normal else "ccw_about_normal", "plane": "xy" if inplane else "tilted"}
    rec.concrete = {"vertices": V, "normal": arg if arg is None else list(map(float, arg))}
    rec.label("kind:" + kind, "cw_about_normal" if cw_about_normal else "ccw_about_normal", "nonconvex" if not convex else "convex",
              "tilted" if not inplane else "inplane", "reflex_first" if default_flipped else None, "normal:" + e["normal"],
              "plus_z" if plus_z else None, "extreme_scale" if abs(case.get("logs", 0.0)) > 3 else None)
    rec.nontrivial = (not convex) or cw_about_normal or default_flipped or not inplane
    argc = arg.copy() if isinstance(arg, np.ndarray) else arg
    Vin, vform = as_form(V, case.get("vform", "float64"))  # container / dtype of the vertex argument (same values)
    rec.label("vform:" + vform)
    P = call(S.Polygon, Vin, argc) if arg is not None else call(S.Polygon, Vin)
    if isinstance(P, Raised):
        rec.fail("construct", dict(sig, type=P.type, kind=kind), msg=P.msg)
        return
    exact = None
    if kind in ("lattice", "lattice_free") and planar and e["inplane"] == 0.0 and e["offset2"] == [0.0, 0.0] and scale == 1.0 \
            and np.array_equal(V[:, :2], np.round(V[:, :2])):  # (the generator's fallback polygon is not integer)
        ixy = [(int(round(a)), int(round(b))) for a, b in V[:, :2]]
        exact = geom.polygon_xy_moments_exact(ixy)
        rec.label("exact")
    _measures(rec, P, V, nexp, sig, plus_z, xy=V[:, :2], exact=exact)
    if case.get("vform") == "float32" and vform != "float32" and inplane:
        # float32 was drawn but the coordinates need double precision: float32-rounded twin instead (xy-plane only: rounding
        # keeps the polygon planar there)
        observe.dtype_twin(rec, S.Polygon, V[:, :2] if arg is None else V, () if arg is None else (argc,), sig, False)
    # (N,2) input is the same polygon
    if inplane and arg is None:
        P2 = call(S.Polygon, as_form(V[:, :2], case.get("vform", "float64"))[0])
        if isinstance(P2, Raised):
            rec.fail("construct_2d", dict(sig, type=P2.type), msg=P2.msg)
        else:
            rec.close("area_2d_input", get(P2, "area"), o0["area"], _tols(V, o0["area"])["area"], sig)
            rec.close("centroid_2d_input", get(P2, "centroid"), o0["centroid"], _tols(V, o0["area"])["cen"], sig)
    # ConvexPolygon on convex input, vertices in any order: same region, ccw about its normal
    if convex:
        p = perm_from_noise(case["perm"], len(V))
        Vp = V[p]
        argp = arg.copy() if isinstance(arg, np.ndarray) else arg
        Vpin = as_form(Vp, case.get("vform", "float64"))[0]
        C = call(S.ConvexPolygon, Vpin, argp) if arg is not None else call(S.ConvexPolygon, Vpin)
        if isinstance(C, Raised):
            rec.fail("construct_convex", dict(sig, type=C.type), msg=C.msg)
            return
        nC = np.asarray(C.normal, dtype=float)
        oc = geom.polygon_moments(np.asarray(C.vertices), nC)
        T = _tols(V, o0["area"])
        sigc = dict(sig, cls="ConvexPolygon")
        rec.check(oc["signed_area"] > 0, "convex_ccw_about_normal", sigc)
        rec.close("convex_first_vertex", C.vertices[0], Vp[0], 0.0, sigc)
        rec.check({tuple(v) for v in np.asarray(C.vertices)} == {tuple(v) for v in Vp}, "convex_vertex_set", sigc)
        rec.close("convex_area", get(C, "area"), o0["area"], T["area"], sigc)
        rec.close("convex_signed_area", get(C, "signed_area"), o0["area"], T["area"], sigc)
        rec.close("convex_perimeter", get(C, "perimeter"), o0["perimeter"], T["len"], sigc)
        rec.close("convex_centroid", get(C, "centroid"), o0["centroid"], T["cen"], sigc)
        c = o0["centroid"]
        want_I = o0["Jc"] * np.outer(nC, nC) + o0["area"] * (np.dot(c, c) * np.eye(3) - np.outer(c, c))
        rec.close("convex_inertia_tensor", get(C, "inertia_tensor"), want_I, T["m4"], sigc)


def clauses():
    return [
        Clause("polygon_any_plane", _case(False), lambda c, r: _run(c, r, False), quick=6000, thorough=60000, rule="see RULE",
               floors={"cw_about_normal": 0.2, "nonconvex": 0.3, "tilted": 0.3, "reflex_first": 0.02}),
        Clause("polygon_xy_plane", _case(True), lambda c, r: _run(c, r, True), quick=6000, thorough=60000,
               rule="same, polygon kept in the xy-plane so that planar moments are asserted; integer polygons exact",
               floors={"plus_z": 0.25, "Ixy<0": 0.05, "cw_about_normal": 0.2, "exact": 0.03}),
    ]


def selftest():
    geom.self_test()
