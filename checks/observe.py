"""Reflection-based observation of shapes: every public observable, in canonical form.

Used by the history (C03), setter (C08), covariance (C09) and side-effect (C16) checks.
The observable alphabet is enumerated from ``dir(type(shape))`` so that new public
members are picked up automatically.
"""
import copy
import functools
import inspect

import numpy as np

from checks.common import S, Raised, call, coxeter

MUTATOR_METHODS = {"merge_faces", "sort_faces", "diagonalize_inertia"}
NON_OBSERVABLE = {"plot", "to_plato_scene", "save", "to_json", "to_hoomd"}
DEPRECATED = {"bounding_sphere", "bounding_circle", "insphere_from_center", "circumsphere_from_center",
              "incircle_from_center"}
# physical dimension (power of length) by name, for scale-aware tolerances
DIMENSIONLESS = {"iq", "tau", "asphericity", "eccentricity", "normals", "normal", "faces", "edges", "neighbors", "num_vertices",
                 "num_faces", "num_edges", "simplices", "is_inside", "repr", "dihedral", "gsd_type"}


def dimension(name, is3d):
    n = name.lower()
    if name in DIMENSIONLESS or n.startswith("num_"):
        return 0
    if "inertia" in n or "moment" in n:
        return 5 if is3d else 4
    if "volume" in n:
        return 3
    if "area" in n:
        return 2
    if "form_factor" in n:
        return 3 if is3d else 2
    return 1


def public_properties(cls):
    out = []
    for name in sorted(dir(cls)):
        if name.startswith("_"):
            continue
        attr = inspect.getattr_static(cls, name)
        if isinstance(attr, (property, functools.cached_property)):
            out.append(name)
    return out


def settable_properties(cls):
    out = []
    for name in public_properties(cls):
        attr = inspect.getattr_static(cls, name)
        if isinstance(attr, property) and attr.fset is not None:
            out.append(name)
    return out


def is3d(shape):
    return isinstance(shape, coxeter.shapes.base_classes.Shape3D)


def _ball(x):
    """Sphere/Circle results are compared by (class, radius, centre)."""
    return {"ball_class": type(x).__name__, "radius": float(x.radius), "centre": np.array(x.centroid, dtype=float)}


def _convert(v):
    if isinstance(v, (S.Sphere, S.Circle)):
        return _ball(v)
    if isinstance(v, coxeter.shapes.base_classes.Shape):
        if hasattr(type(v), "vertices"):
            return {"shape_class": type(v).__name__, "vertices": np.array(v.vertices, dtype=float)}
        return {"shape_class": type(v).__name__, "repr": repr(v)}
    return v


def probe_points(V, radius=0.0):
    """Deterministic probe cloud derived from the current vertices."""
    V = np.asarray(V, dtype=float)
    c = V.mean(axis=0)
    d = V - c
    size = 2 * float(np.max(np.linalg.norm(d, axis=1)))
    pts = [c + 0.31 * d, c + 0.77 * d, c + 0.97 * d, c + 1.03 * d, c + 1.6 * d]
    if radius > 0:
        ln = np.linalg.norm(d, axis=1)[:, None]
        pts += [c + d * (1 + 0.5 * radius / ln), c + d * (1 + 0.95 * radius / ln), c + d * (1 + 1.05 * radius / ln)]
    # pairwise midpoints pushed slightly in/out (near faces/edges)
    mids = (V[:, None, :] + V[None, :, :]).reshape(-1, 3)[:: max(1, len(V) // 3)] / 2
    pts += [c + 0.999 * (mids - c), c + 1.001 * (mids - c)]
    return np.vstack(pts), size


_W = None


def _membership(s, P, size):
    """is_inside at the probe points as 0/1, with 2 where the answer is not stable.

    A probe may happen to lie on the boundary (e.g. the vertex mean of a lattice polygon lies on an edge line, and so
    do points between it and that edge's end points); there the answer is decided by rounding and two equally correct
    shapes may differ. Every probe is therefore also asked at p +- 1e-7 size along a fixed generic direction, in the
    same batch; comparisons only count probes that both sides call stable."""
    global _W
    if _W is None:
        k = np.arange(1, 4001, dtype=float)
        W = np.stack([np.sin(12.9898 * k), np.sin(78.233 * k + 1.0), np.sin(37.719 * k + 2.0)], axis=1)
        _W = W / np.linalg.norm(W, axis=1)[:, None]
    P = np.asarray(P, dtype=float)
    n = len(P)
    W = _W[np.arange(n) % len(_W)].copy()
    r = call(s.is_inside, np.vstack([P, P + 1e-7 * size * W, P - 1e-7 * size * W]))
    if isinstance(r, Raised):
        return r
    r = np.asarray(r)
    if r.shape != (3 * n,):
        return r
    base = r[:n].astype(np.int8)
    base[(r[:n] != r[n:2 * n]) | (r[:n] != r[2 * n:])] = 2
    return base


def readers(shape, with_queries=True, skip=()):
    """List of (name, fn(shape) -> value): every public property plus the standard queries."""
    cls = type(shape)
    out = []
    for name in public_properties(cls):
        if name in skip or name in DEPRECATED:
            continue
        out.append((name, (lambda s, n=name: _convert(call(getattr, s, n)))))
    if not with_queries:
        return out
    out.append(("repr", lambda s: call(repr, s)))
    V = call(getattr, shape, "vertices") if hasattr(cls, "vertices") else None
    if V is not None and not isinstance(V, Raised):
        rad = 0.0
        if hasattr(shape, "radius"):
            r_ = call(getattr, shape, "radius")
            rad = float(r_) if not isinstance(r_, Raised) else 0.0
        P, size = probe_points(V, rad)
        if not isinstance(shape, S.ConvexSpheropolygon):
            out.append(("is_inside", lambda s: _membership(s, P, size)))
        if hasattr(shape, "get_face_area"):
            out.append(("get_face_area", lambda s: call(s.get_face_area)))

            def dihedral(s):
                nb = call(getattr, s, "neighbors")
                if not isinstance(nb, Raised) and len(nb) and len(nb[0]):
                    return call(s.get_dihedral, 0, int(nb[0][0]))
                return None

            out.append(("dihedral", dihedral))
        q = np.array([[0.0, 0, 0], [0.3, -0.2, 0.5], [1.1, 0.7, -0.4], [-2.0, 0.1, 0.9]]) / max(size, 1e-300)
        if not isinstance(shape, (S.ConvexSpheropolygon, S.ConvexSpheropolyhedron)):
            out.append(("form_factor", lambda s: call(s.compute_form_factor_amplitude, q.copy())))
        if isinstance(shape, (S.ConvexPolygon, S.ConvexSpheropolygon)):
            V_ = np.asarray(V)
            if np.all(V_[:, 2] == 0):
                ang = np.array([0.0, 0.4, 1.3, 2.2, 3.3, 4.1, 5.2, 6.0])
                out.append(("distance_to_surface", lambda s: call(s.distance_to_surface, ang.copy())))
    else:
        c = np.asarray(shape.centroid, dtype=float)
        ax = [getattr(shape, k) for k in ("a", "b", "c") if hasattr(shape, k)] or [shape.radius]
        m = max(ax)
        d = np.array([[0.2, 0.1, 0], [0.9, 0.2, 0], [-0.5, 0.8, 0], [1.2, 0, 0], [0, -1.4, 0], [0.3, 0.3, 0.3], [0.0, 0.0, 1.1]]) * m
        if not is3d(shape):
            d = d[:5]
        out.append(("is_inside", lambda s: _membership(s, c + d, m)))
        if hasattr(shape, "distance_to_surface") and not is3d(shape):
            out.append(("distance_to_surface", lambda s: call(s.distance_to_surface, np.array([0.0, 0.4, 1.3, 2.2, 3.3, 4.1, 5.2, 6.0]))))
        if isinstance(shape, S.Sphere):
            q = np.array([[0.0, 0, 0], [0.3, -0.2, 0.5], [1.1, 0.7, -0.4]]) / m
            out.append(("form_factor", lambda s: call(s.compute_form_factor_amplitude, q)))
    return out


def observe(shape, with_queries=True, skip=(), isolated=False):
    """name -> raw value (or Raised) for every public property plus standard queries.

    With ``isolated=True`` every observable is read from its own deep copy of the shape, so that one
    read cannot refresh (and thereby hide) a stale value that another read would have returned."""
    out = {}
    for name, fn in readers(shape, with_queries, skip):
        target = copy.deepcopy(shape) if isolated else shape
        v = fn(target)
        if v is None and name == "dihedral":
            continue
        out[name] = v
    return out


FACE_INDEXED = ("equations", "normals", "neighbors", "get_face_area", "face_centroids")


def _canonical_faces(obs):
    """Make label-dependent outputs comparable: face-indexed data keyed by the face's vertex set,
    faces as rotation-normalised cycles, simplices reduced to an invariant."""
    out = dict(obs)
    faces = obs.get("faces")
    if faces is None or isinstance(faces, Raised):
        return out
    keys = [frozenset(int(i) for i in f) for f in faces]

    def rot(f):
        f = [int(i) for i in f]
        k = f.index(min(f))
        return tuple(f[k:] + f[:k])

    out["faces"] = {k: rot(f) for k, f in zip(keys, faces)}
    for name in FACE_INDEXED:
        v = obs.get(name)
        if v is None or isinstance(v, Raised):
            continue
        try:
            if len(v) != len(keys):
                continue
        except TypeError:
            continue
        if name == "neighbors":
            out[name] = {k: frozenset(keys[int(j)] for j in nb) for k, nb in zip(keys, v)}
        else:
            out[name] = {k: np.asarray(x, dtype=float) for k, x in zip(keys, v)}
    sim = obs.get("simplices")
    if sim is not None and not isinstance(sim, Raised):
        V = np.asarray(obs["vertices"], dtype=float)
        tri = V[np.asarray(sim)]
        ar = 0.5 * np.linalg.norm(np.cross(tri[:, 1] - tri[:, 0], tri[:, 2] - tri[:, 0]), axis=1)
        out["simplices"] = {"count": len(sim), "total_area": float(ar.sum())}
    if "dihedral" in out:
        del out["dihedral"]  # depends on face numbering; dihedrals are compared through equations
    return out


def canonical(obs):
    """canonical() plus polygon-specific normalisation: for a polygon whose normal is not exactly +z the
    individual planar moments depend on an in-plane rotation that the class documents as unspecified, so
    they are reduced to the rotation invariants (trace and determinant of the second-moment matrix)."""
    out = _canonical_faces(obs)
    nrm = obs.get("normal")
    pm = obs.get("planar_moments_inertia")
    if nrm is not None and pm is not None and not isinstance(pm, Raised) and not isinstance(nrm, Raised):
        if not np.array_equal(np.asarray(nrm, dtype=float), [0.0, 0.0, 1.0]):
            ix, iy, ixy = (float(t) for t in pm)
            out["planar_moments_inertia"] = {"trace": ix + iy, "det_sqrt": float(np.sqrt(abs(ix * iy - ixy * ixy)))}
    return out


MINIBALL_DERIVED = {"minimal_bounding_sphere", "minimal_bounding_sphere_radius", "minimal_bounding_circle",
                    "minimal_bounding_circle_radius"}


def compare(rec, a, b, L, three_d, sig, prefix, rtol=1e-9, skip=(), ulp=None, miniball=False):
    """Compare two canonical observation dicts.  Tolerance: rtol * max(|a|,|b|,L^dim).

    Observables computed by the third-party randomised ``miniball`` package are only compared
    when ``miniball=True``: the package sporadically (about 0.5 % of calls) returns a ball that
    is off by ~1 %, see the C13 known finding; their validity is decided by the C13 check with
    an exact oracle instead."""
    for name in sorted(set(a) | set(b)):
        if name in skip:
            continue
        if not miniball and name in MINIBALL_DERIVED and "vertices" in a:
            continue
        if name not in a or name not in b:
            rec.fail(prefix + "observable_set", dict(sig, obs=name), missing_in="a" if name not in a else "b")
            continue
        _cmp(rec, name, a[name], b[name], L, three_d, sig, prefix, rtol)


def _cmp(rec, name, x, y, L, three_d, sig, prefix, rtol):
    s2 = dict(sig, obs=name)
    if isinstance(x, Raised) or isinstance(y, Raised):
        tx = x.type if isinstance(x, Raised) else "value"
        ty = y.type if isinstance(y, Raised) else "value"
        rec.check(tx == ty, prefix + "equal", dict(s2, a=tx, b=ty), a=repr(x)[:120], b=repr(y)[:120])
        return
    if isinstance(x, dict) and isinstance(y, dict):
        if set(x) != set(y):
            rec.fail(prefix + "equal", dict(s2, why="keys"), a=[sorted(k) if isinstance(k, frozenset) else k for k in list(x)[:6]],
                     b=[sorted(k) if isinstance(k, frozenset) else k for k in list(y)[:6]])
            return
        for k in x:
            _cmp(rec, name, x[k], y[k], L, three_d, sig, prefix, rtol)
        return
    if isinstance(x, (str, bool, int, frozenset, tuple, type(None))) and not isinstance(x, float) and type(x) is type(y) \
            and not isinstance(x, (np.ndarray,)):
        if isinstance(x, tuple) and any(isinstance(t, (float, np.floating)) for t in x):
            pass
        else:
            rec.check(x == y, prefix + "equal", s2, a=repr(x)[:120], b=repr(y)[:120])
            return
    if name == "is_inside":
        ax, ay = np.asarray(x), np.asarray(y)
        if ax.shape == ay.shape and ax.dtype.kind in "iu" and ay.dtype.kind in "iu":
            both = (ax != 2) & (ay != 2)
            rec.check(bool(np.all(ax[both] == ay[both])), prefix + "equal", s2, a=repr(x)[:120], b=repr(y)[:120])
            return
    try:
        ax = np.asarray(x)
        ay = np.asarray(y)
        if ax.dtype == bool or ay.dtype == bool or ax.dtype.kind in "iu" and ay.dtype.kind in "iu":
            rec.check(ax.shape == ay.shape and np.array_equal(ax, ay), prefix + "equal", s2, a=repr(x)[:120], b=repr(y)[:120])
            return
        ax = ax.astype(complex) if ax.dtype.kind == "c" or ay.dtype.kind == "c" else ax.astype(float)
        ay = ay.astype(ax.dtype)
    except Exception:  # ragged lists etc.
        try:
            if len(x) == len(y):
                for u, v in zip(x, y):
                    _cmp(rec, name, u, v, L, three_d, sig, prefix, rtol)
                return
        except TypeError:
            pass
        rec.check(repr(x) == repr(y), prefix + "equal", s2, a=repr(x)[:120], b=repr(y)[:120])
        return
    if ax.shape != ay.shape:
        rec.fail(prefix + "equal", dict(s2, why="shape"), a=list(ax.shape), b=list(ay.shape))
        return
    d = dimension(name, three_d)
    if "minimal_bounding" in name and "centered" not in name:
        rtol = max(rtol, 1e-5)  # miniball: randomised, iterates to a relative accuracy of ~1e-7
    floor = L**d if d else 1.0
    def _m(z):
        z = np.abs(z[np.isfinite(z)])
        return float(z.max()) if z.size else 0.0

    mag = max(_m(ax), _m(ay), floor)
    rec.close(prefix + "equal", ax, ay, rtol * mag, s2)


def dtype_twin(rec, ctor, V, rest, sig, three_d, with_queries=False, skip=()):
    """Metamorphic relation over the argument's dtype: the coordinates rounded to single precision are handed over once as
    a float32 array and once as a float64 array holding exactly the same values.  Both are the same mathematical input,
    so either both constructions are refused (with the same exception type) or every observable agrees to double
    precision.  Nothing is assumed about the rounded geometry being valid, so this cannot raise a false alarm."""
    V32 = np.asarray(V, dtype=float).astype(np.float32)
    if not np.all(np.isfinite(V32)):
        return
    V64 = V32.astype(np.float64)
    A, B = call(ctor, V32, *rest), call(ctor, V64, *rest)
    s2 = dict(sig, twin="float32_vs_float64")
    rec.label("dtype_twin")
    if isinstance(A, Raised) or isinstance(B, Raised):
        ta = A.type if isinstance(A, Raised) else "accepted"
        tb = B.type if isinstance(B, Raised) else "accepted"
        rec.check(ta == tb, "dtype_twin_construct", dict(s2, float32=ta, float64=tb), a=repr(A)[:120], b=repr(B)[:120])
        return
    L = float(np.max(np.linalg.norm(V64, axis=1))) or 1.0
    a = canonical(observe(A, with_queries=with_queries, skip=skip))
    b = canonical(observe(B, with_queries=with_queries, skip=skip))
    compare(rec, a, b, L, three_d, s2, "dtype_twin_", rtol=1e-11)
