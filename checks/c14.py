"""C14 - distance_to_surface is the radial distance from the centre to the boundary."""
import math

import numpy as np
from hypothesis import strategies as st

from checks.common import S, Raised, call, polygon_is_convex_ccw
from gen import curved, zoo
from gen.zoo import convex_polygon_xy, f, noise, unit
from harness.runner import Clause
from oracle import geom

RULE = ("Generated: Circle, Ellipse (a<b, a=b, a>b, any centre), ConvexPolygon (regular and irregular, 3..30 vertices, rectangles "
        "with exactly horizontal/vertical edges, in-plane rotation incl. angles within 1e-9..1e-3 of the axes, offset, scale "
        "10^U(-9,6)), ConvexSpheropolygon (same cores x r in {0} U 10^U(-2,1)*size), all in the xy-plane; theta arrays of sizes "
        "1..500: uniform in [-4pi,4pi], exact vertex directions, multiples of pi/4, given as float64 arrays, int arrays or lists. "
        "Oracle: the point centre + d(cos,sin) must lie on the boundary: closed form for circle/ellipse, ray/edge intersection "
        "from the exact centroid for polygons, bisection on the exact distance to the core for spheropolygons (tolerance 1e-9*size); "
        "2pi-periodicity; finiteness. Non-trivial: irregular core, or theta outside [0,2pi), or theta exactly at (or within 5e-324..1e-9 of) a vertex/axis direction, or "
        "axis-aligned edges.")
ASSUMPTIONS = ["tolerance 1e-9*size on the radial distance (1e-7 within 1e-6 rad of a vertex direction of a spheropolygon arc/edge junction is not needed)"]


@st.composite
def _angles(draw):
    n = draw(st.sampled_from([1, 2, 7, 40, 200, 500]))
    return {"n": n, "nz": draw(noise(2 * n)), "container": draw(st.sampled_from(["float64", "float64", "float64", "int64"]))}


_HAIR = [0.0, 0.0, 0.0, 5e-324, -5e-324, 1e-300, -1e-300, 1e-17, -1e-17, 2e-16, -2e-16, 1e-12, -1e-12, 1e-9, -1e-9]


def build_angles(ad, vertex_dirs):
    n = ad["n"]
    u = unit(ad["nz"]).reshape(n, 2)
    th = (2 * u[:, 0] - 1) * 4 * math.pi
    for i in range(n):
        m = u[i, 1]
        if m < 0.15 and len(vertex_dirs):
            th[i] = vertex_dirs[int(u[i, 0] * len(vertex_dirs)) % len(vertex_dirs)] + 2 * math.pi * (int(u[i, 0] * 7) % 3 - 1)
        elif m < 0.3:
            th[i] = (int(u[i, 0] * 33) - 16) * math.pi / 4
        if m < 0.3:
            # ... and angles a hair's breadth away from those (a tiny negative angle reduces to exactly 2 pi mod 2 pi)
            th[i] += _HAIR[int(u[i, 0] * 9973) % len(_HAIR)]
    special = int(np.sum(u[:, 1] < 0.3))
    if ad["container"] == "int64":
        th = np.round(th).astype(np.int64)
        return th, th.astype(float), special
    if ad["container"] == "list":
        return [float(t) for t in th], th, special
    return th, th, special


@st.composite
def _polycase(draw, sphero):
    kind = draw(st.sampled_from(["regular", "irregular", "irregular", "rectangle"]))
    n = draw(st.integers(3, 30))
    rot = draw(st.sampled_from(["none", "free", "near_axis", "quarter"]))
    c = {"kind": kind, "n": n, "noise": draw(noise(n + 2)), "rot": rot, "ang": draw(f(0, 2 * math.pi)), "eps": draw(f(-9, -3)),
         "off": [draw(f(-5, 5)), draw(f(-5, 5))] if draw(st.booleans()) else [0.0, 0.0], "logs": draw(st.sampled_from([k / 2.0 for k in range(-18, 13)])) if draw(st.booleans()) else 0.0,
         "rect": [draw(f(-1, 1)), draw(f(-1, 1))], "angles": draw(_angles()), "perm": draw(noise(30))}
    if sphero:
        c["logr"] = None if draw(st.integers(0, 7)) == 0 else draw(f(-2, 1))
    # how the figure is handed over: vertex order (clockwise lists are legal, the classes sort) and the optional normal
    # argument (a -z or non-unit normal still describes a figure lying in the xy-plane)
    c["cw"] = draw(st.booleans())
    c["normal"] = draw(st.sampled_from(["none", "none", "plus", "minus", "minus_scaled", "plus_scaled"]))
    return c


def build_core(case):
    if case["kind"] == "rectangle":
        w, h = 10.0 ** np.asarray(case["rect"])
        xy = np.array([[0, 0], [w, 0], [w, h], [0, h]], dtype=float)
    else:
        xy = convex_polygon_xy(case["n"], case["kind"] == "regular", case["noise"])
    ang = {"none": 0.0, "free": case["ang"], "quarter": round(case["ang"] / (math.pi / 2)) * (math.pi / 2),
           "near_axis": round(case["ang"] / (math.pi / 2)) * (math.pi / 2) + 10.0 ** case["eps"]}[case["rot"]]
    if ang:
        c, s = math.cos(ang), math.sin(ang)
        xy = xy @ np.array([[c, s], [-s, c]])
    xy = (xy + np.asarray(case["off"])) * 10.0 ** case["logs"]
    return xy


def ray_polygon(xy, c, th):
    """Distance along rays from interior point c to the boundary of the convex ccw polygon xy."""
    e = np.roll(xy, -1, axis=0) - xy
    nrm = np.stack([e[:, 1], -e[:, 0]], axis=1)
    nrm /= np.linalg.norm(nrm, axis=1)[:, None]
    h = np.einsum("ij,ij->i", nrm, xy - c)
    u = np.stack([np.cos(th), np.sin(th)], axis=1)
    den = u @ nrm.T
    with np.errstate(divide="ignore", invalid="ignore"):
        d = np.where(den > 1e-14, h[None, :] / den, np.inf)
    return d.min(axis=1)


def dist_to_polygon(P, xy):
    """Distance from points to the (filled) convex polygon: 0 inside."""
    inside = geom.crossing_number_inside(P, xy)
    d = geom.segment_distance_2d(P, xy, np.roll(xy, -1, axis=0)).min(axis=1)
    return np.where(inside, 0.0, d)


def ray_spheropolygon(xy, c, r, th):
    u = np.stack([np.cos(th), np.sin(th)], axis=1)
    lo = ray_polygon(xy, c, th)  # on the core boundary: distance 0 <= r
    hi = np.full_like(lo, float(np.max(np.linalg.norm(xy - c, axis=1))) + r + 1e-12)
    for _ in range(200):
        mid = 0.5 * (lo + hi)
        inside = dist_to_polygon(c + mid[:, None] * u, xy) <= r
        lo = np.where(inside, mid, lo)
        hi = np.where(inside, hi, mid)
        if np.all(hi - lo <= 4e-16 * hi):
            break
    return 0.5 * (lo + hi)


def _finish(rec, shape, arg, th, want, size, sig, special):
    targ = arg.copy() if isinstance(arg, np.ndarray) else list(arg)
    got = call(shape.distance_to_surface, targ)
    if isinstance(got, Raised):
        rec.fail("distance_to_surface", dict(sig, type=got.type), msg=got.msg)
        return
    got = np.asarray(got)
    if not rec.check(got.shape == (len(th),), "shape", sig, got=list(got.shape)):
        return
    if isinstance(arg, np.ndarray):
        rec.check(np.array_equal(targ, arg), "argument_unchanged", sig)
    fin = np.isfinite(got.astype(float))
    outside = (th < 0) | (th >= 2 * math.pi)
    rec.check(bool(fin.all()), "finite", dict(sig, theta_range="outside_0_2pi" if np.any(~fin & outside) else "inside_0_2pi"),
              theta=th[~fin][:3].tolist())
    err = np.abs(got.astype(float) - want)
    bad = fin & ~(err <= 1e-9 * size)
    for grp, name in ((bad & outside, "outside_0_2pi"), (bad & ~outside, "inside_0_2pi")):
        if grp.any():
            i = int(np.argmax(np.where(grp, err, 0)))
            rec.fail("radial_distance", dict(sig, theta_range=name), theta=float(th[i]), got=float(got[i]), want=float(want[i]), size=size)
    rec.asserts += len(th)
    if not bad.any() and fin.all():
        rec.ratios["radial_distance"] = max(rec.ratios.get("radial_distance", 0.0), float(err.max() / (1e-9 * size)))
    # periodicity
    g2 = call(shape.distance_to_surface, np.asarray(th, dtype=float) + 2 * math.pi)
    if not isinstance(g2, Raised) and fin.all() and np.all(np.isfinite(np.asarray(g2, dtype=float))) and not bad.any():
        rec.close("periodic_2pi", g2, got.astype(float), 1e-9 * size + 1e-7 * size * 0, sig)
    rec.label("theta_outside_0_2pi" if outside.any() else None, "special_angles" if special else None, "n_theta=%d" % len(th))


def _curved(case, rec, cls):
    ax = case["axes"]["axes"]
    cen = curved.make_centre(case["centre"], max(ax))
    sig = {"cls": cls}
    if cls == "Circle":
        a = b = ax[0]
        shape = call(S.Circle, a, cen)
    else:
        a, b = ax
        shape = call(S.Ellipse, a, b, cen)
    if isinstance(shape, Raised):
        rec.fail("construct", dict(sig, type=shape.type), msg=shape.msg)
        return
    arg, th, special = build_angles(case["angles"], [0.0, math.pi / 2, math.pi, 3 * math.pi / 2])
    want = 1.0 / np.sqrt((np.cos(th) / a) ** 2 + (np.sin(th) / b) ** 2)
    rec.concrete = {"a": a, "b": b, "centre": list(map(float, cen)), "theta": th[:5]}
    rec.label(cls, "a<b" if a < b else ("a>b" if a > b else "a=b"), "angles:" + case["angles"]["container"])
    rec.nontrivial = True
    # the tolerance is relative to the local radius for extreme aspect ratios
    _finish(rec, shape, arg, th, want, max(a, b), sig, special)


def _polygon(case, rec, sphero):
    xy = build_core(case)
    convex = polygon_is_convex_ccw(xy)
    assert convex
    A, cx, cy, *_ = geom.polygon_xy_moments(xy)
    c = np.array([cx, cy])
    size = 2 * float(np.max(np.linalg.norm(xy - c, axis=1)))
    vdirs = np.mod(np.arctan2(xy[:, 1] - cy, xy[:, 0] - cx), 2 * math.pi)
    arg, th, special = build_angles(case["angles"], vdirs.tolist())
    e = np.roll(xy, -1, axis=0) - xy
    axis_aligned = bool(np.any(e == 0.0))
    irregular = case["kind"] != "regular"
    sig = {"cls": "ConvexSpheropolygon" if sphero else "ConvexPolygon", "core": "irregular" if irregular else "regular"}
    from checks.common import perm_from_noise

    Vin = xy[perm_from_noise(case["perm"], len(xy))] if not sphero else (xy[::-1].copy() if case.get("cw") else xy)
    nrm = {"none": None, "plus": [0.0, 0.0, 1.0], "minus": [0.0, 0.0, -1.0], "minus_scaled": [0.0, 0.0, -2.5],
           "plus_scaled": [0.0, 0.0, 0.25]}[case.get("normal", "none")]
    kw = {} if nrm is None else {"normal": nrm}
    sig["normal"] = case.get("normal", "none")
    if sphero:
        r = 0.0 if case["logr"] is None else float(10.0 ** case["logr"] * size)
        shape = call(S.ConvexSpheropolygon, Vin.copy(), r, **kw)
        want = ray_spheropolygon(xy, c, r, th) if r > 0 else ray_polygon(xy, c, th)
        size_t = size + r
        sig["r"] = "0" if r == 0 else "pos"
        rec.concrete = {"vertices": xy, "radius": r, "theta": th[:5]}
    else:
        shape = call(S.ConvexPolygon, Vin.copy(), **kw)
        want = ray_polygon(xy, c, th)
        size_t = size
        rec.concrete = {"vertices": Vin, "theta": th[:5]}
    if isinstance(shape, Raised):
        rec.fail("construct", dict(sig, type=shape.type), msg=shape.msg)
        return
    rec.label(sig["cls"], "irregular" if irregular else "regular", "axis_aligned_edges" if axis_aligned else None, "rot:" + case["rot"],
              "kind:" + case["kind"], "angles:" + case["angles"]["container"], "scaled" if case["logs"] else None,
              ("r=0" if sig.get("r") == "0" else "r>0") if sphero else None, "normal:" + sig["normal"],
              "listed_cw" if sphero and case.get("cw") else None)
    rec.nontrivial = irregular or axis_aligned or special > 0 or bool(np.any((th < 0) | (th >= 2 * math.pi)))
    _finish(rec, shape, arg, th, want, size_t, sig, special)


@st.composite
def _ccase(draw, k):
    return {"axes": draw(curved.axes(k, decades=2.0)), "centre": draw(curved.centre(dim3=False)), "angles": draw(_angles())}


def clauses():
    return [
        Clause("circle", _ccase(1), lambda c, r: _curved(c, r, "Circle"), quick=1500, thorough=8000, rule="Circle", floors={"theta_outside_0_2pi": 0.4}),
        Clause("ellipse", _ccase(2), lambda c, r: _curved(c, r, "Ellipse"), quick=2000, thorough=10000, rule="Ellipse", floors={"theta_outside_0_2pi": 0.4}),
        Clause("convex_polygon", _polycase(False), lambda c, r: _polygon(c, r, False), quick=3500, thorough=20000, rule="ConvexPolygon",
               floors={"irregular": 0.4, "theta_outside_0_2pi": 0.4, "special_angles": 0.1, "axis_aligned_edges": 0.1}),
        Clause("spheropolygon", _polycase(True), lambda c, r: _polygon(c, r, True), quick=2500, thorough=12000, rule="ConvexSpheropolygon",
               floors={"irregular": 0.4, "theta_outside_0_2pi": 0.4, "special_angles": 0.1, "axis_aligned_edges": 0.1}),
    ]


def selftest():
    sq = np.array([[-1, -1], [1, -1], [1, 1], [-1, 1]], dtype=float)
    th = np.array([0, math.pi / 4, math.pi / 2, 1.0, -2.5])
    want = 1 / np.maximum(np.abs(np.cos(th)), np.abs(np.sin(th)))
    assert np.allclose(ray_polygon(sq, np.zeros(2), th), want, atol=1e-14)
    # rounded square, closed form: along the axis 1 + r; along the diagonal sqrt(2) + r
    r = 0.3
    got = ray_spheropolygon(sq, np.zeros(2), r, np.array([0.0, math.pi / 4, math.pi / 2]))
    assert np.allclose(got, [1 + r, math.sqrt(2) + r, 1 + r], atol=1e-12), got
    rect = np.array([[-2, -1], [2, -1], [2, 1], [-2, 1]], dtype=float)  # oblique incidence on the flat part
    t = 0.3
    got = ray_spheropolygon(rect, np.zeros(2), 0.5, np.array([t]))
    assert abs(got[0] - 2.5 / math.cos(t)) < 1e-12, got
