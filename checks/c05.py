"""C05 - 3-D point containment equals exact membership."""
import numpy as np
from hypothesis import strategies as st

from checks.common import as_layout, call, diameter, perm_from_noise, points_form_relation, Raised, S
from gen import curved, points, zoo
from harness.runner import Clause
from oracle import geom

RULE = ("Generated: ConvexPolyhedron (zoo), Polyhedron (polycubes incl. lattice-aligned, extrusions, star meshes), Sphere, "
        "Ellipsoid, ConvexSpheropolyhedron (r in {0} U 10^U(-2,1)*size), rigidly placed; query points uniform in the 1.5x box, "
        "at signed distance +-10^U(-6,-1)*size from faces, sharing 1-2 coordinates bit-for-bit with a vertex, next to "
        "vertices/edges; batches of 1..300 plus single (3,) calls and permuted batches. Oracle: max signed facet distance "
        "(convex), solid-angle winding number with exact point-triangle distance as margin (meshes; voxel floor lookup as second "
        "oracle), quadratic form (sphere/ellipsoid), distance to the core <= r (spheropolyhedron). Only points farther than "
        "1e-6*size from the boundary are asserted. Non-trivial case: contains a point within 5% of the size from the boundary, "
        "or coordinate-aligned with a vertex, or (non-convex) in the hull but outside the solid.")
ASSUMPTIONS = ["points within 1e-6*size of the boundary are not asserted (the property excludes a tiny margin)"]
MARGIN = 1e-6


@st.composite
def _case(draw, kind):
    n = draw(st.sampled_from([1, 2, 3, 17, 60, 150, 300]))
    c = {"pts": draw(points.point_noise(n)), "perm": draw(zoo.noise(min(n, 64))), "single": draw(st.integers(0, 10**6))}
    if kind == "convex":
        c["shape"] = draw(zoo.convex3d(max_n=24))
        c["place"] = draw(zoo.placement(max_offset=6.0, scale_decades=1.0))
    elif kind == "mesh":
        c["shape"] = draw(zoo.mesh3d(max_n=16, kinds=("voxel", "voxel", "extrusion", "star")))
        c["place"] = draw(zoo.placement(max_offset=6.0, scale_decades=1.0, p_identity=0.4))
    elif kind == "sphero":
        c["shape"] = draw(zoo.convex3d(max_n=14, kinds=("ellipsoid", "lattice", "prismatoid")))
        c["place"] = draw(zoo.placement(max_offset=6.0, scale_decades=1.0))
        c["logr"] = None if draw(st.integers(0, 7)) == 0 else draw(zoo.f(-2, 1))
    else:
        c["axes"] = draw(curved.axes(3 if kind == "ellipsoid" else 1, decades=2.0))
        c["centre"] = draw(curved.centre())
    return c


def _finish(rec, shape, P, kinds, want, dist, size, sig, case):
    """Compare batch / single / permuted answers with the oracle on margin-filtered points."""
    n = len(P)
    safe = dist > MARGIN * size
    Pq = as_layout(P, case.get("single", 0))  # the batch in one of four memory layouts
    rec.label("layout:%d" % (case.get("single", 0) % 4))
    got = call(shape.is_inside, Pq)
    if isinstance(got, Raised):
        rec.fail("is_inside_batch", dict(sig, type=got.type), msg=got.msg)
        return
    got = np.asarray(got)
    rec.check(np.array_equal(Pq, P), "argument_unchanged", sig)
    if not rec.check(got.shape == (n,) and got.dtype == bool, "batch_shape", sig, shape=list(got.shape), dtype=str(got.dtype)):
        return
    bad = np.nonzero(safe & (got != want))[0]
    for i in bad[:3]:
        rec.fail("membership", dict(sig, impl=bool(got[i]), pointkind=int(kinds[i])), point=P[i], dist_over_size=float(dist[i] / size))
    rec.asserts += int(safe.sum())
    # single-point calls: shape (3,) and (1,3)
    for t in range(min(n, 4)):
        i = (case["single"] + 7 * t) % n
        if not safe[i]:
            continue
        one = call(shape.is_inside, P[i].copy())
        if isinstance(one, Raised):
            rec.fail("is_inside_single", dict(sig, type=one.type), msg=one.msg)
            continue
        one = np.asarray(one)
        rec.check(one.shape == (1,) and bool(one[0]) == bool(got[i]), "single_equals_batch", sig, point=P[i],
                  single=one.tolist(), batch=bool(got[i]))
        two = call(shape.is_inside, P[i:i + 1].copy())
        rec.check(not isinstance(two, Raised) and np.asarray(two).shape == (1,) and bool(np.asarray(two)[0]) == bool(got[i]),
                  "single_row_equals_batch", sig, point=P[i])
    if n > 1:
        p = perm_from_noise(case["perm"], n)
        gp = call(shape.is_inside, P[p].copy())
        okp = not isinstance(gp, Raised) and np.asarray(gp).shape == (n,) and np.array_equal(np.asarray(gp)[safe[p]], got[p][safe[p]])
        rec.check(okp, "permuted_batch", sig)
    points_form_relation(rec, shape, P, got, safe, dist, size, sig, case.get("single", 0) // 4)
    near = bool(np.any(safe & (dist < 0.05 * size)))
    rec.label("near_boundary" if near else None, "aligned" if np.any(kinds == 2) else None, "batch%d" % n)
    return near or bool(np.any(kinds == 2))


def _convex(case, rec):
    c = zoo.build_convex(case["shape"])
    V, R, t, s = zoo.apply_placement(case["place"], c["verts"])
    facets, nrm, off, _ = geom.convex_facets(V)
    size = diameter(V)
    P, kinds = points.points_for_mesh(case["pts"], V, facets, size)
    sd = (P @ nrm.T - off[None, :]).max(axis=1)
    rec.concrete = {"vertices": V, "points": P[:5]}
    shape = call(S.ConvexPolyhedron, V.copy())
    sig = {"cls": "ConvexPolyhedron"}
    if isinstance(shape, Raised):
        rec.fail("construct", dict(sig, type=shape.type), msg=shape.msg)
        return
    rec.label("ConvexPolyhedron", case["shape"]["kind"])
    rec.nontrivial = bool(_finish(rec, shape, P, kinds, sd < 0, np.abs(sd), size, sig, case))


def _mesh(case, rec):
    m = zoo.build_mesh(case["shape"])
    pl = case["place"]
    lattice = m.get("lattice") and zoo.is_identity_rotation(pl) and pl["logs"] == 0.0 and case["shape"]["kind"] == "voxel"
    if lattice:
        V = m["verts"].copy()
    else:
        V, R, t, s = zoo.apply_placement(pl, m["verts"])
    F = [list(map(int, f)) for f in m["faces"]]
    size = diameter(V)
    P, kinds = points.points_for_mesh(case["pts"], V, F, size)
    if lattice:
        # lattice-aligned probes: snap a third of the points to multiples of 1/2
        k = len(P) // 3
        P[:k] = np.round(P[:k] * 2) / 2
        kinds[:k] = 2
    w = geom.winding_number(P, V, F)
    dist = geom.mesh_distance(P, V, F)
    want = w > 0.5
    # the winding number must be unambiguous away from the surface, else the oracle is wrong
    ok = dist > MARGIN * size
    assert np.all(np.abs(w[ok] - np.round(w[ok])) < 1e-3), "winding-number oracle ambiguous"
    if lattice:
        cells = set(map(tuple, m["cells"]))
        fl = np.array([tuple(np.floor(p).astype(int)) in cells for p in P])
        assert np.array_equal(fl[ok], want[ok]), "voxel oracle disagrees with winding oracle"
    rec.concrete = {"vertices": V, "faces": F, "points": P[:5]}
    shape = call(S.Polyhedron, V.copy(), [list(f) for f in F], True)
    sig = {"cls": "Polyhedron", "kind": case["shape"]["kind"]}
    if isinstance(shape, Raised):
        rec.fail("construct", dict(sig, type=shape.type), msg=shape.msg)
        return
    nt = _finish(rec, shape, P, kinds, want, dist, size, sig, case)
    # in the convex hull but outside the solid
    hf, hn, ho, _ = geom.convex_facets(V)
    inhull = (P @ hn.T - ho[None, :]).max(axis=1) < 0
    pocket = bool(np.any(inhull & ~want & ok))
    rec.label("Polyhedron", "kind:" + case["shape"]["kind"], "pocket_point" if pocket else None, "lattice_aligned" if lattice else None)
    rec.nontrivial = bool(nt) or pocket


def _sphero(case, rec):
    c = zoo.build_convex(case["shape"])
    V, R, t, s = zoo.apply_placement(case["place"], c["verts"])
    facets, nrm, off, _ = geom.convex_facets(V)
    size = diameter(V)
    r = 0.0 if case["logr"] is None else float(10.0 ** case["logr"] * size)
    # sample around the *rounded* surface: offset the near-face points by r
    P, kinds = points.points_for_mesh(case["pts"], V, facets, size)
    sd = (P @ nrm.T - off[None, :]).max(axis=1)
    dcore = np.where(sd <= 0, 0.0, geom.mesh_distance(P, V, facets))
    # push every other outside point radially so that it lands near the rounded surface
    u = zoo.unit(case["pts"]["nz"]).reshape(-1, 6)[:, 5]
    for i in range(len(P)):
        if sd[i] > 0 and dcore[i] > 0 and i % 2 == 0 and r > 0:
            # move along the direction away from the core by (r - dcore) +- 10^U(-6,-1) size
            # (direction: gradient of the distance = from closest point; approximated by the facet normal of max distance)
            j = int(np.argmax(P[i] @ nrm.T - off))
            eps = (10.0 ** (-6 + 5 * u[i])) * size * (1 if i % 4 == 0 else -1)
            P[i] = P[i] + (r - dcore[i] + eps) * nrm[j]
    sd = (P @ nrm.T - off[None, :]).max(axis=1)
    dcore = np.where(sd <= 0, 0.0, geom.mesh_distance(P, V, facets))
    want = dcore <= r
    dist = np.where(sd <= 0, np.abs(sd) + r, np.abs(dcore - r))
    rec.concrete = {"vertices": V, "radius": r, "points": P[:5]}
    shape = call(S.ConvexSpheropolyhedron, V.copy(), r)
    sig = {"cls": "ConvexSpheropolyhedron", "r": "0" if r == 0 else "pos"}
    if isinstance(shape, Raised):
        rec.fail("construct", dict(sig, type=shape.type), msg=shape.msg)
        return
    nt = _finish(rec, shape, P, kinds, want, dist, size + r, sig, case)
    band = bool(np.any((sd > 0) & want & (dist > MARGIN * (size + r))))
    # same questions after the core has been moved through its public handle: the answers must move with it
    tv = np.array([0.37, -0.21, 0.53]) * (size + r)
    cen = call(getattr, shape.polyhedron, "centroid")
    if not isinstance(cen, Raised):
        mv = call(setattr, shape.polyhedron, "centroid", np.asarray(cen) + tv)
        if isinstance(mv, Raised):
            rec.fail("move_core_raised", dict(sig, type=mv.type), msg=mv.msg)
        else:
            got2 = call(shape.is_inside, P + tv)
            ok2 = not isinstance(got2, Raised) and np.asarray(got2).shape == (len(P),)
            safe = dist > 10 * MARGIN * (size + r)
            rec.check(ok2 and np.array_equal(np.asarray(got2)[safe], want[safe]), "membership_after_moving_core", sig,
                      differing=int(np.sum(np.asarray(got2)[safe] != want[safe])) if ok2 else repr(got2)[:80])
    rec.label("ConvexSpheropolyhedron", "r=0" if r == 0 else "r>0", "rounding_band_point" if band else None)
    rec.nontrivial = bool(nt) or band


def _ball(case, rec, cls):
    ax = case["axes"]["axes"]
    scale = max(ax)
    cen = curved.make_centre(case["centre"], scale)
    c = np.asarray(cen, dtype=float)
    if cls == "Sphere":
        axes3 = np.array([ax[0]] * 3)
        shape = call(S.Sphere, ax[0], cen)
    else:
        axes3 = np.array(ax, dtype=float)
        shape = call(S.Ellipsoid, ax[0], ax[1], ax[2], cen)
    sig = {"cls": cls}
    if isinstance(shape, Raised):
        rec.fail("construct", dict(sig, type=shape.type), msg=shape.msg)
        return
    P, kinds = points.points_for_ball(case["pts"], c, axes3)
    q = np.linalg.norm((P - c) / axes3, axis=1)
    want = q <= 1
    # margin in relative radial units; scale "size" = 1 here
    dist = np.abs(q - 1)
    # rounding of P - c for far centres: require margin above eps*|c|/min axis too
    guard = 64 * np.finfo(float).eps * (np.linalg.norm(c) + scale) / axes3.min()
    dist = np.where(dist > guard, dist, 0.0)
    rec.concrete = {"axes": list(map(float, axes3)), "centre": c, "points": P[:5]}
    nt = _finish(rec, shape, P, kinds, want, dist, 1.0, sig, case)
    rec.label(cls, "mode:" + case["axes"]["mode"], "centre:" + case["centre"]["kind"])
    rec.nontrivial = bool(nt) or bool(np.any(kinds == 1))


def clauses():
    return [
        Clause("convex", _case("convex"), _convex, quick=1200, thorough=6000, rule="ConvexPolyhedron", floors={"near_boundary": 0.25}),
        Clause("mesh", _case("mesh"), _mesh, quick=1000, thorough=5000, rule="Polyhedron incl. non-convex",
               floors={"near_boundary": 0.25, "pocket_point": 0.08, "aligned": 0.15}),
        Clause("sphero", _case("sphero"), _sphero, quick=800, thorough=4000, rule="ConvexSpheropolyhedron",
               floors={"rounding_band_point": 0.2, "r=0": 0.03}),
        Clause("sphere", _case("sphere"), lambda c, r: _ball(c, r, "Sphere"), quick=1500, thorough=6000, rule="Sphere", floors={}),
        Clause("ellipsoid", _case("ellipsoid"), lambda c, r: _ball(c, r, "Ellipsoid"), quick=1500, thorough=6000, rule="Ellipsoid", floors={}),
    ]


def selftest():
    geom.self_test()
