"""C19 - GSD, repr and HOOMD representations round-trip the shape."""
import copy

import numpy as np
from hypothesis import strategies as st

from checks.c08 import KINDS, _case as _shape_case, build
from checks.common import S, Raised, call, coxeter, get, maxnorm
from gen import zoo
from gen import poly as gp
from gen.zoo import f
from harness.runner import Clause
from oracle import geom

RULE = ("Generated: shapes of all ten classes (zoo; off-origin; both polygon orientations; any plane; rounding radius incl. exactly "
        "0) and GSD dicts with every type string, missing type, unknown type, rounding_radius present/absent/0, non-convex vertex "
        "cycles. Oracle: from_gsd_type_shapes(spec, dims) has the same class (convex-cycle Polygon -> ConvexPolygon counted "
        "separately) and equal vertices/faces/radii/axes; eval(repr(s)) has the same class or its general base with equal vertices, "
        "faces, radii, axes, centre and normal; to_json returns exactly the requested attributes; to_hoomd has the documented key "
        "set and a shape rebuilt from the returned data is centred, has the returned volume/area and inertia tensor (harness "
        "oracles), and the dict stays valid after the call. Non-trivial: off-origin by >= 1 size, non-convex polygon specs, "
        "malformed specs, zero rounding radius.")
ASSUMPTIONS = ["to_hoomd of polygons is asserted for polygons lying in the xy-plane (the returned vertices are 2-D)"]

HOOMD_KEYS = {
    "Polygon": {"vertices", "centroid", "sweep_radius", "area", "moment_inertia"},
    "ConvexPolygon": {"vertices", "centroid", "sweep_radius", "area", "moment_inertia"},
    "Polyhedron": {"vertices", "faces", "centroid", "sweep_radius", "volume", "moment_inertia"},
    "ConvexPolyhedron": {"vertices", "faces", "centroid", "sweep_radius", "volume", "moment_inertia"},
    "ConvexSpheropolyhedron": {"vertices", "centroid", "sweep_radius", "volume"},
    "ConvexSpheropolygon": {"vertices", "centroid", "sweep_radius", "area"},
    "Sphere": {"diameter", "centroid", "volume", "moment_inertia"},
    "Ellipsoid": {"a", "b", "c", "centroid", "volume", "moment_inertia"},
}
BASES = {"ConvexPolyhedron": ("ConvexPolyhedron", "Polyhedron"), "ConvexPolygon": ("ConvexPolygon", "Polygon")}


@st.composite
def _case(draw):
    c = draw(_shape_case())
    c["zero_radius"] = draw(st.integers(0, 5)) == 0
    c["xs"] = draw(st.sampled_from([0.0, 0.0, 0.0, 0.0, -9.0, -6.0, -3.0, 3.0, 6.0]))
    c["nudge"] = draw(st.sampled_from([None, None, None, 1e-9, 1e-10, 1e-12]))
    c["attrs"] = draw(st.lists(st.sampled_from(["vertices", "volume", "area", "centroid", "radius", "normal", "faces", "a", "iq", "nope", "gsd_shape_spec"]),
                               min_size=0, max_size=4, unique=True))
    return c


def _cycle_equal(A, B, allow_reverse=False):
    A, B = np.asarray(A, dtype=float), np.asarray(B, dtype=float)
    if A.shape != B.shape:
        return False
    n = len(A)
    for k in range(n):
        if np.array_equal(np.roll(B, -k, axis=0), A):
            return True
        if allow_reverse and np.array_equal(np.roll(B[::-1], -k, axis=0), A):
            return True
    return False


def _ns():
    return {"coxeter": coxeter, "array": np.array, "int32": np.int32, "int64": np.int64, "float64": np.float64, "np": np, "nan": float("nan"),
            "inf": float("inf")}


def _defining_equal(rec, a, b, sig, what, with_centre):
    """Same defining data (vertices/faces/radii/axes [+ centre, normal])."""
    if hasattr(type(a), "vertices"):
        if isinstance(a, S.Polyhedron) and not isinstance(a, S.ConvexPolyhedron) or (with_centre and isinstance(b, S.Polyhedron) and type(b) is S.Polyhedron):
            rec.close(what + "_vertices", b.vertices, np.asarray(a.vertices), 0.0, sig)
            fa = [[int(i) for i in f_] for f_ in a.faces]
            fb = [[int(i) for i in f_] for f_ in b.faces]
            rec.check(fa == fb, what + "_faces", sig, got=fb[:3], want=fa[:3])
        elif isinstance(a, (S.Polygon, S.ConvexSpheropolygon)):
            rec.check(_cycle_equal(a.vertices, b.vertices), what + "_vertex_cycle", sig, got=np.asarray(b.vertices)[:3], want=np.asarray(a.vertices)[:3])
            if with_centre:
                rec.close(what + "_normal", b.normal, np.asarray(a.normal), 1e-15, sig)
        else:
            rec.close(what + "_vertices", b.vertices, np.asarray(a.vertices), 0.0, sig)
        if hasattr(a, "radius"):
            rec.close(what + "_radius", get(b, "radius"), a.radius, 0.0, sig)
    else:
        for k in ("a", "b", "c", "radius"):
            if hasattr(a, k):
                rec.close(what + "_" + k, get(b, k), getattr(a, k), 0.0, sig)
        if with_centre:
            rec.close(what + "_centre", get(b, "centroid"), np.asarray(a.centroid, dtype=float), 0.0, sig)


def _run(case, rec):
    kind = case["kind"]
    if case["zero_radius"]:
        case = dict(case, radius=-400.0)  # 10**-400 == 0.0: a legal zero rounding radius
    obj = call(build, case)
    sig = {"cls": kind}
    if isinstance(obj, Raised):
        rec.fail("construct", dict(sig, type=obj.type), msg=obj.msg)
        return
    rec.concrete = {"repr": repr(obj)[:500]}
    has_v = hasattr(type(obj), "vertices")
    L = maxnorm(obj.vertices) if has_v else float(np.linalg.norm(obj.centroid)) + 1.0
    zero_r = has_v and hasattr(obj, "radius") and obj.radius == 0
    rec.label("cls:" + kind, "zero_radius" if zero_r else None)
    size = (2 * float(np.max(np.linalg.norm(obj.vertices - np.mean(obj.vertices, axis=0), axis=1)))) if has_v else 1.0
    off_origin = has_v and float(np.linalg.norm(np.mean(obj.vertices, axis=0))) >= size
    rec.label("off_origin" if off_origin else None, "extreme_scale" if abs(case.get("xs", 0.0)) >= 6 and has_v else None,
              "centroid_a_hair_off_origin" if case.get("nudge") and "cvx" in case else None)
    rec.nontrivial = bool(off_origin or zero_r or kind == "Polygon")
    # ---------------- GSD round trip
    spec = get(obj, "gsd_shape_spec")
    if isinstance(spec, Raised):
        rec.fail("gsd_shape_spec", dict(sig, type=spec.type), msg=spec.msg)
    else:
        dims = 3 if observe_is3d(obj) else 2
        back = call(coxeter.from_gsd_type_shapes, copy.deepcopy(spec), dims)
        if isinstance(back, Raised):
            rec.fail("gsd_roundtrip_raised", dict(sig, type=back.type), msg=back.msg)
        else:
            got = type(back).__name__
            ok = got == kind or (kind == "Polygon" and got == "ConvexPolygon")
            if kind == "Polygon" and got == "ConvexPolygon":
                rec.label("polygon_spec_convex_first")
            rec.check(ok, "gsd_same_class", dict(sig, got=got), radius=getattr(obj, "radius", None))
            if ok:
                _defining_equal(rec, obj, back, sig, "gsd", with_centre=False)
                if has_v and not isinstance(obj, (S.ConvexSpheropolygon, S.ConvexSpheropolyhedron)):
                    m = "volume" if dims == 3 else "area"
                    rec.close("gsd_same_measure", get(back, m), get(obj, m), 1e-12 * abs(float(get(obj, m))), sig)
    # ---------------- repr round trip
    rp = call(repr, obj)
    if isinstance(rp, Raised):
        rec.fail("repr_raised", dict(sig, type=rp.type), msg=rp.msg)
    else:
        ev = call(eval, rp, _ns())
        if isinstance(ev, Raised):
            rec.fail("repr_not_evaluable", dict(sig, type=ev.type), msg=ev.msg, repr=rp[:200])
        else:
            got = type(ev).__name__
            ok = got in BASES.get(kind, (kind,))
            rec.check(ok, "repr_same_class_or_base", dict(sig, got=got))
            if ok:
                _defining_equal(rec, obj, ev, sig, "repr", with_centre=True)
    # ---------------- to_json
    attrs = case["attrs"]
    js = call(obj.to_json, list(attrs))
    unknown = [a for a in attrs if not hasattr(type(obj), a)]
    readable = all(not isinstance(call(getattr, obj, a), Raised) for a in attrs if a not in unknown)
    if unknown and not readable:
        rec.label("to_json_getter_raised")
    elif unknown:
        rec.check(isinstance(js, Raised) and js.type == "AttributeError", "to_json_unknown_attribute_raises_AttributeError", sig,
                  attrs=attrs, got=repr(js)[:80])
    elif isinstance(js, Raised):
        rec.label("to_json_getter_raised")  # e.g. centroid of a spheropolytope: not a to_json matter
    else:
        rec.check(isinstance(js, dict) and list(js) == list(attrs), "to_json_exactly_requested_keys", sig, got=list(js) if isinstance(js, dict) else repr(js)[:60])
        for a in attrs:
            v = getattr(obj, a)
            try:
                same = js[a] == v if isinstance(v, (dict, str)) else _deep_equal(js[a], v)
            except Exception:
                same = False
            rec.check(bool(same), "to_json_values_are_attribute_values", dict(sig, attr=a))
    # ---------------- to_hoomd
    if hasattr(obj, "to_hoomd"):
        _hoomd(rec, obj, kind, sig, L)


def _getattr_raises_other(obj, a):
    return False


def observe_is3d(obj):
    return isinstance(obj, coxeter.shapes.base_classes.Shape3D)


def _hoomd(rec, obj, kind, sig, L):
    inplane = True
    if isinstance(obj, (S.Polygon, S.ConvexSpheropolygon)):
        V0 = np.asarray(obj.vertices)
        inplane = bool(np.all(V0[:, 2] == V0[0, 2]))
        if not inplane:
            rec.label("hoomd_skipped_tilted_polygon")
            return
    before_v = np.array(obj.vertices) if hasattr(type(obj), "vertices") else None
    h = call(obj.to_hoomd)
    if isinstance(h, Raised):
        rec.fail("to_hoomd_raised", dict(sig, type=h.type), msg=h.msg)
        return
    snap = copy.deepcopy(h)
    rec.check(set(h) == HOOMD_KEYS[kind], "hoomd_documented_keys", sig, got=sorted(h), want=sorted(HOOMD_KEYS[kind]))
    rec.label("hoomd")
    tol = 1e-9 * L
    if "centroid" in h:
        rec.close("hoomd_centroid_is_origin", np.asarray(h["centroid"], dtype=float), np.zeros(3), 1e-12 * L, sig)
    if before_v is not None:
        rec.close("hoomd_leaves_shape_in_place", np.asarray(obj.vertices), before_v, 1e-12 * L, sig)
    if kind in ("Polyhedron", "ConvexPolyhedron", "ConvexSpheropolyhedron"):
        HV = np.asarray(h["vertices"], dtype=float)
        if kind == "ConvexSpheropolyhedron":
            faces = geom.convex_facets(HV)[0]
            rec.close("hoomd_sweep_radius", h["sweep_radius"], obj.radius, 0.0, sig)
        else:
            faces = [[int(i) for i in f_] for f_ in h["faces"]]
            rec.close("hoomd_sweep_radius", h["sweep_radius"], 0.0, 0.0, sig)
        m = geom.mesh_moments(HV, faces)
        rec.close("hoomd_vertices_centred", m["centroid"], np.zeros(3), tol, sig, centroid_of_returned_vertices=m["centroid"])
        if kind != "ConvexSpheropolyhedron":
            rec.close("hoomd_volume", h["volume"], m["volume"], 1e-9 * m["volume"], sig)
            rec.close("hoomd_moment_inertia", np.asarray(h["moment_inertia"], dtype=float), m["inertia_centroidal"],
                      1e-9 * m["volume"] * L * L + 1e-9 * np.abs(m["inertia_centroidal"]).max(), sig)
        else:
            rec.close("hoomd_volume", h["volume"], get(obj, "volume"), 1e-9 * abs(float(obj.volume)), sig)
    elif kind in ("Polygon", "ConvexPolygon", "ConvexSpheropolygon"):
        HV = np.asarray(h["vertices"], dtype=float)
        xy = HV[:, :2]
        A, cx, cy, Ix, Iy, Ixy = geom.polygon_xy_moments(xy)
        s2 = dict(sig)
        rec.close("hoomd_vertices_centred", [cx, cy], [0.0, 0.0], tol, s2, centroid_of_returned_vertices=[cx, cy])
        if kind == "ConvexSpheropolygon":
            rec.close("hoomd_sweep_radius", h["sweep_radius"], obj.radius, 0.0, sig)
            rec.close("hoomd_area", h["area"], get(obj, "area"), 1e-9 * float(obj.area), sig)
        else:
            rec.check(HV.shape[1] == 2, "hoomd_polygon_vertices_2d", sig)
            rec.close("hoomd_sweep_radius", h["sweep_radius"], 0.0, 0.0, sig)
            rec.close("hoomd_area", h["area"], abs(A), 1e-9 * abs(A), sig)
            J = (Ix + Iy) - abs(A) * (cx * cx + cy * cy)
            rec.close("hoomd_moment_inertia", np.asarray(h["moment_inertia"], dtype=float), np.diag([0.0, 0.0, J]), 1e-9 * abs(A) * L * L, sig)
    elif kind == "Sphere":
        r = obj.radius
        V = 4 / 3 * np.pi * r**3
        rec.close("hoomd_diameter", h["diameter"], 2 * r, 0.0, sig)
        rec.close("hoomd_volume", h["volume"], V, 1e-12 * V, sig)
        rec.close("hoomd_moment_inertia", np.asarray(h["moment_inertia"], dtype=float), np.eye(3) * 0.4 * V * r * r, 1e-12 * V * r * r, sig)
    elif kind == "Ellipsoid":
        a, b, c = obj.a, obj.b, obj.c
        V = 4 / 3 * np.pi * a * b * c
        rec.check((h["a"], h["b"], h["c"]) == (a, b, c), "hoomd_axes", sig)
        rec.close("hoomd_volume", h["volume"], V, 1e-12 * V, sig)
        rec.close("hoomd_moment_inertia", np.asarray(h["moment_inertia"], dtype=float),
                  np.diag([V / 5 * (b * b + c * c), V / 5 * (a * a + c * c), V / 5 * (a * a + b * b)]), 1e-12 * V * max(a, b, c) ** 2, sig)
    # the returned dict must not change when the shape is used afterwards
    if hasattr(type(obj), "vertices"):
        call(getattr, obj, "centroid")
        call(lambda: obj.to_hoomd())
    try:
        same = all(_deep_equal(h[k], snap[k]) for k in h)
    except Exception:
        same = False
    rec.check(same, "hoomd_dict_stays_valid", sig)


def _deep_equal(a, b):
    if isinstance(a, (list, tuple)) and isinstance(b, (list, tuple)):
        return len(a) == len(b) and all(_deep_equal(x, y) for x, y in zip(a, b))
    return np.array_equal(np.asarray(a), np.asarray(b))


# ------------------------------------------------------------------------ raw GSD specs
@st.composite
def _spec_case(draw):
    mode = draw(st.sampled_from(["missing_type", "unknown_type", "nonconvex_polygon", "sphere2d", "ellipsoid2d", "polygon_rr", "poly3_rr", "mesh", "extra_keys"]))
    return {"mode": mode, "poly": draw(gp.simple_polygon(max_n=12, kinds=("star", "comb", "untangled", "lattice"))), "cvx": draw(zoo.convex3d(max_n=10)),
            "r": draw(st.sampled_from([0, 0.0, 0.25, 1.5])), "type": draw(st.sampled_from(["sphere", "Polyhedron", "", "ConvexPolygon", "mesh", None, 7]))}


def _spec(case, rec):
    mode = case["mode"]
    sig = {"mode": mode}
    G = coxeter.from_gsd_type_shapes
    rec.label("mode:" + mode)
    rec.nontrivial = True
    rec.concrete = {"mode": mode}
    xy = gp.build_polygon_xy(case["poly"])
    V3 = zoo.build_convex(case["cvx"])["verts"]
    if mode == "missing_type":
        r = call(G, {"vertices": V3.tolist()})
        rec.check(isinstance(r, Raised) and r.type == "ValueError", "missing_type_raises_ValueError", sig, got=repr(r)[:80])
    elif mode == "unknown_type":
        r = call(G, {"type": case["type"], "vertices": V3.tolist(), "diameter": 1.0})
        rec.check(isinstance(r, Raised) and r.type == "ValueError", "unknown_type_raises_ValueError", dict(sig, type=repr(case["type"])), got=repr(r)[:80])
    elif mode == "nonconvex_polygon":
        from checks.common import polygon_is_convex_ccw

        if polygon_is_convex_ccw(xy):
            return
        r = call(G, {"type": "Polygon", "vertices": np.c_[xy, np.zeros(len(xy))].tolist()}, 2)
        ok = not isinstance(r, Raised) and type(r) is S.Polygon
        rec.check(ok, "nonconvex_cycle_yields_Polygon", sig, got=repr(r)[:100])
        if ok:
            rec.close("nonconvex_vertices_kept_in_order", r.vertices, np.c_[xy, np.zeros(len(xy))], 0.0, sig)
    elif mode == "sphere2d":
        for dims, cls in ((2, S.Circle), (3, S.Sphere)):
            r = call(G, {"type": "Sphere", "diameter": 3.0}, dims)
            rec.check(not isinstance(r, Raised) and type(r) is cls and r.radius == 1.5, "sphere_dimensions", dict(sig, dims=dims), got=repr(r)[:80])
    elif mode == "ellipsoid2d":
        r2 = call(G, {"type": "Ellipsoid", "a": 1.0, "b": 2.0, "c": 3.0}, 2)
        r3 = call(G, {"type": "Ellipsoid", "a": 1.0, "b": 2.0, "c": 3.0}, 3)
        rec.check(not isinstance(r2, Raised) and type(r2) is S.Ellipse and (r2.a, r2.b) == (1.0, 2.0), "ellipse_dimensions", sig, got=repr(r2)[:80])
        rec.check(not isinstance(r3, Raised) and type(r3) is S.Ellipsoid and (r3.a, r3.b, r3.c) == (1.0, 2.0, 3.0), "ellipsoid_dimensions", sig, got=repr(r3)[:80])
    elif mode == "polygon_rr":
        from gen.zoo import convex_polygon_xy

        P = convex_polygon_xy(5, False, [100, 60000, 3000, 40000, 20000, 9000])
        r = call(G, {"type": "Polygon", "vertices": P.tolist(), "rounding_radius": case["r"]}, 2)
        rec.check(not isinstance(r, Raised) and type(r) is S.ConvexSpheropolygon and r.radius == case["r"], "rounding_radius_key_yields_spheropolygon",
                  dict(sig, r=repr(case["r"])), got=repr(r)[:80])
    elif mode == "poly3_rr":
        r = call(G, {"type": "ConvexPolyhedron", "vertices": V3.tolist(), "rounding_radius": case["r"]})
        rec.check(not isinstance(r, Raised) and type(r) is S.ConvexSpheropolyhedron and r.radius == case["r"], "rounding_radius_key_yields_spheropolyhedron",
                  dict(sig, r=repr(case["r"])), got=repr(r)[:80])
        r = call(G, {"type": "ConvexPolyhedron", "vertices": V3.tolist()})
        rec.check(not isinstance(r, Raised) and type(r) is S.ConvexPolyhedron, "no_rounding_radius_yields_polyhedron", sig, got=repr(r)[:80])
    elif mode == "mesh":
        F = [list(map(int, f_)) for f_ in geom.convex_facets(V3)[0]]
        r = call(G, {"type": "Mesh", "vertices": V3.tolist(), "indices": F})
        ok = not isinstance(r, Raised) and type(r) is S.Polyhedron
        rec.check(ok, "mesh_yields_Polyhedron", sig, got=repr(r)[:80])
        if ok:
            rec.check([[int(i) for i in f_] for f_ in r.faces] == F, "mesh_faces_kept", sig)
    else:
        r = call(G, {"type": "ConvexPolyhedron", "vertices": V3.tolist(), "name": "x", "comment": None, "source": "y"})
        rec.check(not isinstance(r, Raised) and type(r) is S.ConvexPolyhedron, "extra_keys_ignored", sig, got=repr(r)[:80])


GSD_TYPES = ["Sphere", "Ellipsoid", "Polygon", "ConvexPolyhedron", "Mesh", "sphere", "Polyhedron", "", None, 5, "mesh", "ConvexPolygon"]
_TET = [[0.0, 0.0, 0.0], [1.0, 0.0, 0.0], [0.0, 1.0, 0.0], [0.0, 0.0, 1.0]]
_TRI = [[0.0, 0.0, 0.0], [1.0, 0.0, 0.0], [0.0, 1.0, 0.0]]


@st.composite
def _gsd_fuzz_case(draw):
    return {"type_index": draw(st.integers(0, len(GSD_TYPES))), "keys": draw(st.integers(0, 255)), "dims": draw(st.integers(2, 3)),
            "vals": draw(st.lists(st.integers(0, 255), min_size=0, max_size=16))}


def _gsd_fuzz(case, rec):
    """Dispatch of from_gsd_type_shapes on arbitrary type strings and key subsets (also the atheris target)."""
    ti, keys, dims, vals = case["type_index"], case["keys"], case["dims"], list(case["vals"]) + [0] * 16
    spec = {}
    if ti < len(GSD_TYPES):
        spec["type"] = GSD_TYPES[ti]
    num = lambda k: 0.25 + vals[k] / 64.0  # noqa: E731  (always positive)
    if keys & 1:
        spec["vertices"] = _TET if (keys & 128) else _TRI
    if keys & 2:
        spec["rounding_radius"] = vals[0] / 64.0
    if keys & 4:
        spec["diameter"] = num(1)
    if keys & 8:
        spec["a"] = num(2)
    if keys & 16:
        spec["b"] = num(3)
    if keys & 32:
        spec["c"] = num(4)
    if keys & 64:
        spec["indices"] = [[0, 2, 1], [0, 1, 3], [1, 2, 3], [0, 3, 2]]
    t = spec.get("type", "<missing>")
    r = call(coxeter.from_gsd_type_shapes, dict(spec), dims)
    sig = {"type": repr(t)}
    rec.concrete = {"spec": {k: (v if k != "vertices" else len(v)) for k, v in spec.items()}, "dims": dims}
    valid_types = {"Sphere", "Ellipsoid", "Polygon", "ConvexPolyhedron", "Mesh"}
    rec.nontrivial = True
    try:
        known = t in valid_types
    except TypeError:
        known = False
    if not known:
        rec.label("unknown_or_missing_type")
        rec.check(isinstance(r, Raised) and r.type == "ValueError", "unknown_or_missing_type_raises_ValueError", sig, got=repr(r)[:100])
        return
    # which class must come out if all required keys are there
    want = None
    if t == "Sphere" and "diameter" in spec:
        want = S.Circle if dims == 2 else S.Sphere
    elif t == "Ellipsoid" and {"a", "b"} <= set(spec) and (dims == 2 or "c" in spec):
        want = S.Ellipse if dims == 2 else S.Ellipsoid
    elif t == "Polygon" and spec.get("vertices") is _TRI:
        want = S.ConvexSpheropolygon if "rounding_radius" in spec else S.ConvexPolygon
    elif t == "ConvexPolyhedron" and spec.get("vertices") is _TET:
        want = S.ConvexSpheropolyhedron if "rounding_radius" in spec else S.ConvexPolyhedron
    elif t == "Mesh" and spec.get("vertices") is _TET and "indices" in spec:
        want = S.Polyhedron
    if want is None:
        rec.label("incomplete_spec")
        rec.check(isinstance(r, Raised), "incomplete_spec_does_not_build_a_shape", dict(sig), got=repr(r)[:100]) if t in ("Sphere", "Mesh") else None
        return
    rec.label("complete_spec")
    rec.check(not isinstance(r, Raised) and type(r) is want, "complete_spec_builds_dispatched_class", dict(sig, want=want.__name__),
              got=repr(r)[:100], spec=rec.concrete)
    if not isinstance(r, Raised) and "rounding_radius" in spec and isinstance(r, (S.ConvexSpheropolygon, S.ConvexSpheropolyhedron)):
        rec.close("rounding_radius_kept", r.radius, spec["rounding_radius"], 0.0, sig)


@st.composite
def _far_case(draw):
    return {"cvx": draw(zoo.convex3d(max_n=40)), "place": draw(zoo.placement(max_offset=0.0)), "far": draw(st.sampled_from([3.0, 4.0, 5.0, 6.0, 6.5])),
            "kind": draw(st.sampled_from(["ConvexPolyhedron", "Polyhedron", "ConvexSpheropolyhedron"]))}


def _gsd_far(case, rec):
    """GSD and repr round trips are pure data transport: a solid 1e3..3e6 diameters from the origin (vertex spacing down to
    1e-8 of the coordinates) comes back with exactly the vertices it went in with."""
    V, _, _, _ = zoo.apply_placement(case["place"], zoo.build_convex(case["cvx"])["verts"])
    D = 2 * float(np.max(np.linalg.norm(V - V.mean(axis=0), axis=1)))
    V = V + 10.0 ** case["far"] * D * np.array([0.6, -0.64, 0.48])
    kind = case["kind"]
    sig = {"cls": kind, "far": "1e%g" % case["far"]}
    rec.concrete = {"vertices": V}
    rec.nontrivial = True
    rec.label("cls:" + kind, "far:1e%g" % case["far"], "kind:" + case["cvx"]["kind"])
    if kind == "ConvexPolyhedron":
        obj = call(S.ConvexPolyhedron, V.copy())
    elif kind == "Polyhedron":
        obj = call(S.Polyhedron, V.copy(), [np.array(f_) for f_ in geom.convex_facets(V)[0]], True)
    else:
        obj = call(S.ConvexSpheropolyhedron, V.copy(), 0.1 * D)
    if isinstance(obj, Raised):
        rec.fail("construct", dict(sig, type=obj.type), msg=obj.msg)
        return
    spec = get(obj, "gsd_shape_spec")
    if isinstance(spec, Raised):
        rec.fail("gsd_shape_spec", dict(sig, type=spec.type), msg=spec.msg)
        return
    back = call(coxeter.from_gsd_type_shapes, copy.deepcopy(spec), 3)
    if isinstance(back, Raised):
        rec.fail("gsd_roundtrip_raised", dict(sig, type=back.type), msg=back.msg)
        return
    want_cls = {"Polyhedron": ("Polyhedron", "ConvexPolyhedron")}.get(kind, (kind,))
    if rec.check(type(back).__name__ in want_cls, "gsd_same_class", dict(sig, got=type(back).__name__)):
        bv = np.asarray(back.vertices, dtype=float)
        same = bv.shape == V.shape and {tuple(x) for x in bv} == {tuple(x) for x in V}
        rec.check(same, "gsd_vertices", sig, got=len(bv), want=len(V))
    ev = call(eval, call(repr, obj), _ns())
    if isinstance(ev, Raised):
        rec.fail("repr_not_evaluable", dict(sig, type=ev.type), msg=ev.msg)
    else:
        ev_v = np.asarray(ev.vertices, dtype=float)
        rec.check(ev_v.shape == V.shape and {tuple(x) for x in ev_v} == {tuple(x) for x in V}, "repr_vertices", sig)


def fuzz_targets():
    seeds = [bytes([0, 4, 1, 64]), bytes([3, 129, 0, 16]), bytes([4, 193, 1, 0]), bytes([12, 255, 0, 9])]
    return [{"clause": "gsd_fuzz", "decoder": "gsd_dict", "runs_quick": 5000, "runs_thorough": 300000, "seeds": seeds, "max_len": 20}]


def clauses():
    return [
        Clause("gsd_fuzz", _gsd_fuzz_case(), _gsd_fuzz, quick=4500, thorough=30000, rule="type string x key subset x dimensions for from_gsd_type_shapes",
               floors={"unknown_or_missing_type": 0.2, "complete_spec": 0.05}),
        Clause("roundtrips", _case(), _run, quick=3600, thorough=25000, rule="gsd / repr / to_json / to_hoomd of generated shapes",
               floors={"off_origin": 0.05, "zero_radius": 0.01, "hoomd": 0.4}),
        Clause("roundtrips_far_from_origin", _far_case(), _gsd_far, quick=600, thorough=6000,
               rule="gsd / repr round trips of solids 1e3..3e6 diameters from the origin (vertex sets bit-for-bit)", floors={}),
        Clause("gsd_specs", _spec_case(), _spec, quick=1200, thorough=6000, rule="hand-built GSD dicts incl. malformed ones", floors={}),
    ]
