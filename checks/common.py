"""Helpers shared by the per-property check modules."""
import numpy as np

from harness import env
from harness.runner import EPS

coxeter = env.import_coxeter()
from coxeter import shapes as S  # noqa: E402


class Raised:
    def __init__(self, exc):
        self.exc = exc
        self.type = type(exc).__name__
        self.msg = str(exc)[:200]

    def __repr__(self):
        return f"Raised({self.type}: {self.msg})"


def call(fn, *a, **k):
    """Call into the code under test; exceptions become values the oracle can judge."""
    if any(type(x).__name__ == "Omitted" for x in a):  # gen.curved.Omitted: an optional argument the caller leaves out
        a = tuple(x for x in a if type(x).__name__ != "Omitted")
    try:
        return fn(*a, **k)
    except Exception as e:  # noqa: BLE001
        return Raised(e)


def get(obj, name):
    return call(getattr, obj, name)


def perm_from_noise(nz, n):
    """Permutation of range(n) determined by drawn noise (stable argsort)."""
    nz = list(nz)[:n] + [0] * max(0, n - len(nz))
    return [int(i) for i in np.argsort(np.asarray(nz), kind="stable")]


def diameter(V):
    V = np.asarray(V, dtype=float)
    return 2 * float(np.max(np.linalg.norm(V - V.mean(axis=0), axis=1)))


def maxnorm(V):
    return float(np.max(np.linalg.norm(np.asarray(V, dtype=float), axis=1)))


def face_key(face):
    return frozenset(int(i) for i in face)


def cyc_equal(a, b):
    """Are two index cycles equal up to rotation (same direction)?"""
    a, b = [int(x) for x in a], [int(x) for x in b]
    if len(a) != len(b) or set(a) != set(b):
        return False
    i = b.index(a[0])
    return a == b[i:] + b[:i]


def coplanarity_ambiguous(V, facets, normals, offsets, lo=1e-12, hi=1e-6):
    """Is some vertex at a relative distance in (lo, hi) from a facet plane it is not on?"""
    V = np.asarray(V, dtype=float)
    D = diameter(V)
    d = np.abs(V @ np.asarray(normals).T - np.asarray(offsets)[None, :]) / D
    on = np.zeros_like(d, dtype=bool)
    for j, fc in enumerate(facets):
        on[fc, j] = True
    dd = d[~on]
    return bool(np.any((dd > lo) & (dd < hi)))


def as_layout(A, k):
    """The same (n, d) values in another memory layout: 0 C-contiguous copy, 1 a strided window of a wider array,
    2 Fortran order, 3 a reversed-stride view (all are ordinary ndarrays a caller may hold)."""
    A = np.asarray(A, dtype=float)
    k = k % 4
    if k == 1:
        buf = np.full((A.shape[0], A.shape[1] + 2), 7.25)
        buf[:, 1:-1] = A
        return buf[:, 1:-1]
    if k == 2:
        return np.asfortranarray(A)
    if k == 3:
        return A[::-1].copy()[::-1]
    return A.copy()


FORMS = ("float64", "float64", "list", "tuple", "int64", "int32", "float32", "fortran", "strided")


def as_form(A, form):
    """The same (n, d) coordinates in another container / dtype a caller may legitimately hand over.  Integer and float32
    forms are only produced when they represent the values exactly (otherwise a nested list is returned), so the
    mathematical input is unchanged.  Returns (object, label actually used)."""
    A = np.asarray(A, dtype=float)
    if form in ("int64", "int32"):
        if np.array_equal(A, np.round(A)) and np.max(np.abs(A), initial=0.0) < 2**30:
            return A.astype(form), form
        form = "list"
    if form == "float32":
        if np.array_equal(A.astype(np.float32).astype(float), A):
            return A.astype(np.float32), form
        form = "list"
    if form == "list":
        return [[float(x) for x in r] for r in A], "list"
    if form == "tuple":
        return tuple(tuple(float(x) for x in r) for r in A), "tuple"
    if form == "fortran":
        return as_layout(A, 2), "fortran"
    if form == "strided":
        return as_layout(A, 1), "strided"
    return A.copy(), "float64"


def points_form_relation(rec, shape, P, got, safe, dist, size, sig, k, planar=False):
    """Metamorphic relation over the form of the query points: the same batch handed over as a nested list or a nested
    tuple must get the answers the float64 ndarray got (at the points clear of the boundary), and a float32 array must get
    the answers of the float64 array holding exactly the same rounded values (everywhere)."""
    P = np.asarray(P, dtype=float)
    k = k % 4
    if k == 0:
        return
    if k == 1:
        alt, robust, name = [[float(x) for x in r] for r in P], safe, "list"
    elif k == 2:
        alt, robust, name = tuple(tuple(float(x) for x in r) for r in P), safe, "tuple"
    else:
        # float32: compared with what the float64 array holding exactly the same (rounded) values gets - the same
        # mathematical input, so the answers must agree everywhere, however close to the boundary the points are
        alt, name = P.astype(np.float32), "float32"
        if not np.all(np.isfinite(alt)):
            return
        ref = call(shape.is_inside, alt.astype(np.float64))
        if isinstance(ref, Raised):
            ga = call(shape.is_inside, alt)
            rec.label("ptsform:float32")
            rec.check(isinstance(ga, Raised) and ga.type == ref.type, "points_form_equals_ndarray", dict(sig, form=name), got=repr(ga)[:100])
            return
        got, robust = np.asarray(ref), np.ones(len(P), dtype=bool)
    ga = call(shape.is_inside, alt)
    ok = not isinstance(ga, Raised) and np.asarray(ga).shape == (len(P),) and np.array_equal(np.asarray(ga)[robust], np.asarray(got)[robust])
    rec.label("ptsform:" + name)
    rec.check(ok, "points_form_equals_ndarray", dict(sig, form=name), got=repr(ga)[:100])


def facet_flatness(V, facets, normals, offsets):
    """Largest distance of a facet's own vertices from the facet plane, in units of eps * (largest |coordinate|)."""
    V = np.asarray(V, dtype=float)
    L = float(np.max(np.abs(V))) or 1.0
    worst = 0.0
    for fc, n, d in zip(facets, np.asarray(normals), np.asarray(offsets)):
        if len(fc) > 3:
            worst = max(worst, float(np.max(np.abs(V[list(fc)] @ n - d))))
    return worst / (EPS * L)


def tol_scale(V, ntri, K):
    """Conditioning-aware absolute tolerances for origin-based algorithms (DESIGN s.4)."""
    L = maxnorm(V)
    e = K * EPS * max(ntri, 1)
    return {"L": L, "len": e * L, "area": e * L**2, "vol": e * L**3, "m4": e * L**4, "m5": e * L**5}


def cross2(a, b):
    a = np.asarray(a, dtype=float)
    b = np.asarray(b, dtype=float)
    return a[..., 0] * b[..., 1] - a[..., 1] * b[..., 0]


def polygon_is_convex_ccw(xy):
    xy = np.asarray(xy, dtype=float)
    return bool(np.all(cross2(xy - np.roll(xy, 1, axis=0), np.roll(xy, -1, axis=0) - xy) > 0))
