"""C02 - general (non-convex) polyhedron measures are exact."""
import numpy as np
from hypothesis import strategies as st

from checks import observe
from checks.common import FORMS, S, Raised, as_form, call, diameter, get, tol_scale
from gen import zoo
from harness.runner import Clause
from oracle import geom

RULE = ("Generated: closed oriented meshes with convex faces - polycubes grown from templates (L, U, S, ring of genus 1, "
        "2x2x2 minus one, ...) with anisotropic stretch, faces_are_convex given as True / left to its default / False, faces as lists or (un)signed index arrays, extrusions of non-convex simple polygons with ear-clipped caps, "
        "radially perturbed star meshes, convex hulls given as meshes - x rigid placement up to 10 diameters x scale "
        "10^+-1. Oracle: signed-tetrahedron moments over the harness's own fan triangulation, cross-checked per case "
        "against the voxel closed form. Non-trivial: not star-shaped about its centroid, or genus 1, or offset >= 1 "
        "diameter; distinct = distinct generated case.")
ASSUMPTIONS = ["faces handed to Polyhedron are convex and consistently outward (as the property requires)",
               "tolerance K*eps*n_tri*L^d, K=1e4"]
K = 1e4


@st.composite
def _case(draw, max_n=24, anchored=False, decades=1.0):
    out = {"mesh": draw(zoo.mesh3d(max_n=max_n)), "place": draw(zoo.placement(max_offset=10.0, scale_decades=decades)),
           "shift": draw(st.integers(0, 7)), "flag": draw(st.sampled_from(["convex", "convex", "default", "not_assumed"])),
           "fdtype": draw(st.sampled_from(["list", "list", "int64", "int32", "uint8", "uint32", "uint64"])),
           "vform": draw(st.sampled_from(FORMS))}
    if draw(st.integers(0, 24)) == 0:
        # one case in 25 is a polycube grown from the ring template (genus 1): left to the template draw alone the class
        # came out at 0.4 %..1 % of the cases depending on the seed
        out["mesh"] = dict(draw(zoo.mesh3d(kinds=("voxel",), max_n=max_n)), template="ring")
    if anchored:
        out["anchor"] = draw(st.sampled_from(zoo.ANCHORS))
        out["anchor_k"] = draw(st.integers(0, 40))
    return out


def voxel_closed_form(cells, stretch):
    """Volume, centroid, centroidal inertia of a polycube with per-axis stretch (no mesh)."""
    C = np.asarray(cells, dtype=float) + 0.5
    s = np.asarray(stretch, dtype=float)
    n = len(C)
    vol = n * float(np.prod(s))
    cen = C.mean(axis=0) * s
    cell_v = float(np.prod(s))
    S2 = np.zeros((3, 3))
    for c in C:
        r = c * s - cen
        S2 += cell_v * (np.outer(r, r) + np.diag(s * s / 12.0))
    Ic = np.trace(S2) * np.eye(3) - S2
    return vol, cen, Ic


def _run(case, rec):
    m = zoo.build_mesh(case["mesh"])
    V0, F = m["verts"], [list(map(int, f)) for f in m["faces"]]
    pl = dict(case["place"])
    if pl["logs"] > 6.0:
        # Polygon (used for the faces) tests planarity as |n.v - d| <= 1e-8 + planar_tolerance*|d| (numpy.isclose with
        # rtol=planar_tolerance, a documented parameter), so rotated faces with coordinates >= 1e7 are refused for
        # rounding noise alone: a stated limit of the constructor, not of the measures; those draws are folded onto
        # the tiny end of the range instead
        pl["logs"] -= 14.0
    V, R, t, s = zoo.apply_placement(pl, V0)
    vform = case.get("vform", "float64")
    if vform in ("int64", "int32", "float32") and case["mesh"]["kind"] == "voxel" and not case.get("anchor"):
        # fixed-width integer / single-precision vertex arrays are only handed over when they hold the values exactly: the
        # polycube is snapped to eighths (its faces stay axis-aligned planes, distinct planes stay distinct: cells are at
        # least 0.2 wide) and moved by an integer offset of up to ~1.7e3 instead of being rotated and scaled
        Q = np.round(np.asarray(V0, dtype=float) * 8.0)
        td = np.asarray(pl["tdir"], dtype=float)
        off = np.round(td / np.linalg.norm(td) * pl["tmag"] * 100.0)
        V = Q + off if vform != "float32" else Q / 8.0 + off
        t = None
    # cyclic shift of every face's start vertex (a relabelling the class must not care about)
    sh = case["shift"]
    F = [f[sh % len(f):] + f[:sh % len(f)] for f in F]
    if case.get("anchor"):
        V = zoo.anchored(case["anchor"], V, F, case["anchor_k"])
        t = None
        rec.label("anchor:" + case["anchor"])
    o = geom.mesh_moments(V, F)
    kind = case["mesh"]["kind"]
    star = zoo.star_shaped_about(V, F, o["centroid"])
    D = diameter(V)
    off = float(np.linalg.norm(V.mean(axis=0))) / D
    sig = {"kind": kind, "star_shaped": str(star)}
    rec.concrete = {"vertices": V, "faces": F}
    rec.label("kind:" + kind, case["mesh"].get("template"), "nonstar" if not star else "starshaped", "genus%d" % m["genus"],
              "offset>=1" if off >= 1 else "offset<1")
    rec.nontrivial = (not star) or m["genus"] >= 1 or off >= 1
    if case.get("anchor"):  # here the interesting solids are those whose centroid is not their vertex mean
        rec.nontrivial = float(np.linalg.norm(o["centroid"] - V.mean(axis=0))) > 1e-3 * D
    if kind == "voxel" and t is not None:  # two independent oracles must agree, else the harness is wrong
        vol, cen, Ic = voxel_closed_form(m["cells"], m["stretch"])
        vol *= s**3
        cen = s * (R @ cen) + t
        Ic = s**5 * (R @ Ic @ R.T)
        assert abs(vol - o["volume"]) <= 1e-9 * vol, "oracle disagreement (volume)"
        assert np.allclose(cen, o["centroid"], atol=1e-9 * (D + np.linalg.norm(cen))), "oracle disagreement (centroid)"
        assert np.allclose(Ic, o["inertia_centroidal"], atol=1e-9 * vol * D * D), "oracle disagreement (inertia)"
    # the faces are convex; the caller may say so, leave the flag to its default (then only all-triangle meshes are
    # taken as convex and every other face goes through the ear-clipping triangulation), or explicitly not promise it
    flag = case.get("flag", "convex")
    args = {"convex": (True,), "default": (), "not_assumed": (False,)}[flag]
    rec.label("flag:" + flag)
    fd = case.get("fdtype", "list")
    faces_arg = [list(f) for f in F] if fd == "list" else [np.array(f, dtype=getattr(np, fd)) for f in F]
    rec.label("faces_as:" + fd)
    Vin, vform = as_form(V, vform)
    rec.label("vform:" + vform)
    poly = call(S.Polyhedron, Vin, faces_arg, *args)
    if isinstance(poly, Raised):
        rec.fail("construct", dict(sig, type=poly.type), msg=poly.msg)
        return
    if case.get("vform") == "float32" and vform != "float32":
        # float32 was drawn but the coordinates need double precision: float32-rounded twin (the rounded mesh may have
        # non-planar faces: then both twins must be refused alike)
        observe.dtype_twin(rec, S.Polyhedron, V, (faces_arg,) + tuple(args), sig, True)
    ntri = sum(len(f) - 2 for f in F)
    T = tol_scale(V, ntri, K)
    vol = o["volume"]
    rec.close("volume", get(poly, "volume"), vol, T["vol"], sig)
    areas = [geom.face_area_centroid(V[f])[0] for f in F]
    rec.close("surface_area", get(poly, "surface_area"), sum(areas), T["area"], sig)
    fa = call(poly.get_face_area)
    rec.close("get_face_area", fa, areas, T["area"], sig)
    j = len(F) // 2
    rec.close("get_face_area_single", call(poly.get_face_area, j), [areas[j]], T["area"], sig)
    rec.close("centroid", get(poly, "centroid"), o["centroid"], T["m4"] / vol, sig)
    rec.close("center", get(poly, "center"), o["centroid"], T["m4"] / vol, sig)
    it = get(poly, "inertia_tensor")
    rec.close("inertia_tensor", it, o["inertia"], T["m5"], sig)
    # the same mesh handed over with faces_are_convex left to its default must agree
    if all(len(f) == 3 for f in F):
        p2 = call(S.Polyhedron, V.copy(), [list(f) for f in F])
        if isinstance(p2, Raised):
            rec.fail("construct_default_flag", dict(sig, type=p2.type), msg=p2.msg)
        else:
            rec.close("volume_default_flag", get(p2, "volume"), vol, T["vol"], sig)


def clauses():
    return [Clause("mesh_measures", _case(), _run, quick=2500, thorough=12000, rule="see RULE",
                   floors={"nonstar": 0.15, "genus1": 0.008, "offset>=1": 0.2, "kind:voxel": 0.15, "kind:extrusion": 0.08, "kind:star": 0.08}),
            Clause("mesh_measures_anchored_at_origin", _case(anchored=True), _run, quick=1200, thorough=8000,
                   rule="same solids translated so that their centroid / vertex mean / one vertex / bounding-box centre is the origin",
                   floors={"anchor:centroid": 0.2}),
            Clause("mesh_measures_extreme_scale", _case(decades=8.0), _run, quick=1200, thorough=8000,
                   rule="same with uniform scale 10^U(-8,8) (tolerances are scale-free)", floors={"flag:default": 0.1})]


def selftest():
    geom.self_test()
    v, c, i = voxel_closed_form([(0, 0, 0)], [1, 2, 3])
    assert abs(v - 6) < 1e-12 and np.allclose(np.diag(i), [6 / 12 * 13, 6 / 12 * 10, 6 / 12 * 5])
