"""C20 - exported mesh files describe exactly the polyhedron."""
import os
import shutil
import tempfile

import numpy as np
from hypothesis import strategies as st

from checks import observe
from checks.common import S, Raised, call, coxeter, maxnorm
from gen import zoo
from harness.runner import Clause
from oracle import geom
from parsers import mesh_formats as mf

RULE = ("Generated: Polyhedron (polycubes incl. U/ring shapes, extrusions, star meshes, hulls) and ConvexPolyhedron (zoo) with face "
        "degrees 3..12, coordinates of either sign and magnitudes 1e-6..1e6 (exponent notation), written through coxeter.io.to_* and "
        "save(filetype,...). Oracle: strict hand-written readers per format; parsed coordinates bit-equal to the shape's, faces equal "
        "as cycles in the same (outward) orientation, declared counts equal data counts (OFF nV nF nE; PLY elements; VTK POLYGONS), "
        "STL: every triangle on one face, triangles tile each face, listed counter-clockwise about an outward normal parallel to "
        "the written normal, closed surface; X3D/HTML well-formed with one IndexedFaceSet; save() byte-identical to to_*; ValueError "
        "for unknown types; all observables unchanged by exporting. Non-trivial: a face with >=5 vertices or a coordinate printed "
        "in exponent notation, or a non-convex solid.")
ASSUMPTIONS = ["STL normals are checked for direction only (length is not asserted)"]
FORMATS = ["OBJ", "OFF", "PLY", "VTK", "STL", "X3D", "HTML"]


@st.composite
def _case(draw):
    convex = draw(st.booleans())
    c = {"convex_cls": convex, "place": draw(zoo.placement(max_offset=3.0)), "logscale": draw(st.sampled_from([0.0, 0.0, -6.0, -3.0, 3.0, 6.0, 1.0, -9.0, -12.0])),
         "order": draw(st.permutations(FORMATS)), "via_save": draw(st.booleans()),
         "far": draw(st.sampled_from([None, None, None, 5.0, 6.0])), "again": draw(st.booleans())}
    if convex:
        c["shape"] = draw(zoo.convex3d(max_n=16))
    else:
        c["shape"] = draw(zoo.mesh3d(max_n=12))
    return c


def _build(case):
    if case["convex_cls"]:
        V0 = zoo.build_convex(case["shape"])["verts"]
        F0 = None
    else:
        m = zoo.build_mesh(case["shape"])
        V0, F0 = m["verts"], [list(map(int, f)) for f in m["faces"]]
    V, R, t, s = zoo.apply_placement(case["place"], V0)
    V = V * 10.0 ** case["logscale"]
    if case.get("far"):  # the same solid 1e5 / 1e6 of its own diameters away from the origin
        V = V + 10.0 ** case["far"] * 2 * float(np.max(np.linalg.norm(V - V.mean(axis=0), axis=1))) * np.array([0.6, -0.64, 0.48])
    if F0 is None:
        return S.ConvexPolyhedron(V.copy())
    return S.Polyhedron(V.copy(), [np.array(f) for f in F0], True)


def _cyc_same(a, b):
    a, b = list(a), list(b)
    if len(a) != len(b):
        return False
    for k in range(len(b)):
        if a == b[k:] + b[:k]:
            return True
    return False


def _run(case, rec):
    shape = call(_build, case)
    sig0 = {"cls": "ConvexPolyhedron" if case["convex_cls"] else "Polyhedron"}
    if isinstance(shape, Raised):
        rec.fail("construct", dict(sig0, type=shape.type), msg=shape.msg)
        return
    V = np.array(shape.vertices, dtype=float)
    F = [[int(i) for i in f] for f in shape.faces]
    # ground truth orientation: faces outward (signed volume positive), independent of coxeter.io
    vol = geom.mesh_moments(V, F)["volume"]
    assert vol > 0, "harness: input faces are not outward"
    E = {(min(a, b), max(a, b)) for f in F for a, b in zip(f, f[1:] + f[:1])}
    expo = any("e" in repr(float(x)) for x in V.ravel())
    maxdeg = max(len(f) for f in F)
    nonconvex = not case["convex_cls"] and case["shape"]["kind"] in ("voxel", "extrusion", "star")
    rec.label(sig0["cls"], "exponent_notation" if expo else None, "deg>=5" if maxdeg >= 5 else None, "negative_coords" if (V < 0).any() else None,
              "nonconvex" if nonconvex else None, "via_save" if case["via_save"] else "via_io")
    rec.nontrivial = expo or maxdeg >= 5 or nonconvex
    rec.concrete = {"vertices": V, "faces": F}
    before = observe.canonical(observe.observe(shape))
    tmp = tempfile.mkdtemp(prefix="c20_")
    try:
        _export_all(rec, shape, V, F, E, case, tmp, sig0)
        for bad in ("obj", "XYZ", "", "Stl"):
            r = call(shape.save, bad, os.path.join(tmp, "bad.out"))
            rec.check(isinstance(r, Raised) and r.type == "ValueError", "unknown_filetype_raises_ValueError", dict(sig0, filetype=bad), got=repr(r)[:80])
        after = observe.canonical(observe.observe(shape))
        observe.compare(rec, before, after, maxnorm(V), True, sig0, "export_leaves_shape_", rtol=1e-12)
        if case.get("again"):
            # the same object, changed in place, exported again: the files describe the object as it is now
            size = 2 * float(np.max(np.linalg.norm(V - V.mean(axis=0), axis=1)))
            r1 = call(setattr, shape, "volume", 8.0 * float(shape.volume))
            r2 = call(setattr, shape, "centroid", np.asarray(shape.centroid, dtype=float) + np.array([0.5, -0.25, 1.0]) * size)
            if isinstance(r1, Raised) or isinstance(r2, Raised):
                rec.fail("mutation_between_exports_raised", sig0, r1=repr(r1)[:80], r2=repr(r2)[:80])
            else:
                V2 = np.array(shape.vertices, dtype=float)
                rec.label("exported_again_after_change")
                _export_all(rec, shape, V2, F, E, case, tmp, dict(sig0, round="after_change"))
    finally:
        shutil.rmtree(tmp, ignore_errors=True)


def _export_all(rec, shape, V, F, E, case, tmp, sig0):
    written = {}
    if True:
        for fmt in case["order"]:
            sig = dict(sig0, fmt=fmt)
            # files written earlier into the same directory (same stem, other extension) are still what they were
            for p_, raw_ in written.items():
                ok_ = os.path.exists(p_) and open(p_, "rb").read() == raw_
                if not rec.check(ok_, "earlier_export_left_alone", dict(sig0, writing=fmt, earlier=os.path.splitext(p_)[1][1:].upper()),
                                 exists=os.path.exists(p_)):
                    written = {}
                    break
            path = os.path.join(tmp, "shape." + fmt.lower())
            writer = getattr(coxeter.io, "to_" + fmt.lower())
            r = call(shape.save, fmt, path) if case["via_save"] else call(writer, shape, path)
            if isinstance(r, Raised):
                rec.fail("export_raised", dict(sig, type=r.type), msg=r.msg)
                continue
            if not rec.check(os.path.exists(path), "file_written", sig):
                continue
            raw = open(path, "rb").read()
            written[path] = raw
            try:
                text = raw.decode("utf-8")
            except UnicodeDecodeError:
                rec.fail("not_text", sig)
                continue
            # save() must dispatch to the very same writer
            path2 = os.path.join(tmp, "other." + fmt.lower())
            r2 = call(writer, shape, path2) if case["via_save"] else call(shape.save, fmt, path2)
            if not isinstance(r2, Raised):
                rec.check(open(path2, "rb").read() == raw, "save_dispatches_to_same_writer", sig)
            else:
                rec.fail("export_raised", dict(sig, type=r2.type, via="other"), msg=r2.msg)
            if fmt == "STL":
                _check_stl(rec, text, V, F, sig)
                continue
            try:
                pv, pf, notes = mf.PARSERS[fmt](text)
            except mf.FormatError as e:
                rec.fail("well_formed", sig, error=str(e)[:200], head=text[:200])
                continue
            if notes.get("header"):
                rec.fail("well_formed", dict(sig, header=notes["header"]), head=text[:160])
            if fmt in ("X3D", "HTML"):
                # points are listed per face corner; map back to coordinates
                ok = len(pf) == len(F) and all(len(a) == len(b) for a, b in zip(pf, F))
                rec.check(ok, "face_count_and_degrees", sig, got=[len(a) for a in pf][:8], want=[len(b) for b in F][:8])
                if ok:
                    good = all(np.array_equal(np.array([pv[i] for i in a]), V[b]) for a, b in zip(pf, F))
                    rec.check(good, "faces_and_coordinates", sig)
                continue
            rec.check(len(pv) == len(V) and np.array_equal(np.array(pv), V), "vertices_bit_equal", sig, n=len(pv), want=len(V))
            rec.check(len(pf) == len(F) and all(_cyc_same(a, b) for a, b in zip(pf, F)), "faces_same_cycles_and_orientation", sig,
                      got=pf[:3], want=F[:3])
            if fmt == "OFF":
                rec.check((notes["nv"], notes["nf"]) == (len(V), len(F)), "declared_counts", sig, got=[notes["nv"], notes["nf"]])
                rec.check(notes["ne"] == len(E), "declared_edge_count", sig, got=notes["ne"], want=len(E))


def _check_stl(rec, text, V, F, sig):
    try:
        tris, norms, name = mf.parse_stl(text)
    except mf.FormatError as e:
        rec.fail("well_formed", sig, error=str(e)[:200], head=text[:200])
        return
    vid = {tuple(v): i for i, v in enumerate(V.tolist())}
    fsets = [set(f) for f in F]
    fn = [geom.newell_normal(V[f]) for f in F]
    area_by_face = [0.0] * len(F)
    count_by_face = [0] * len(F)
    directed = set()
    for k, (t, n) in enumerate(zip(tris, norms)):
        ids = [vid.get(tuple(p)) for p in t]
        if not rec.check(all(i is not None for i in ids), "stl_vertices_are_shape_vertices", sig, triangle=t):
            return
        home = [j for j, fs in enumerate(fsets) if set(ids) <= fs]
        if not rec.check(len(home) >= 1, "stl_triangle_on_one_face", sig, triangle=ids):
            return
        j = home[0]
        P = V[ids]
        cr = np.cross(P[1] - P[0], P[2] - P[0])
        area_by_face[j] += 0.5 * np.linalg.norm(cr)
        count_by_face[j] += 1
        out = float(np.dot(cr, fn[j]))
        if not rec.check(out > 0, "stl_triangle_outward_ccw", sig, triangle=ids, face=F[j]):
            return
        nn = np.asarray(n, dtype=float)
        c = np.linalg.norm(np.cross(nn, cr))
        edge = min(np.linalg.norm(P[1] - P[0]), np.linalg.norm(P[2] - P[1]), np.linalg.norm(P[0] - P[2]))
        tol_par = 1e-9 + 1e3 * 2.0**-52 * maxnorm(V) / edge  # a normal from coordinates of size L carries eps*L/edge
        if not rec.check(np.dot(nn, cr) > 0 and c <= tol_par * np.linalg.norm(nn) * np.linalg.norm(cr), "stl_normal_outward_parallel", sig,
                         normal=n, geometric=cr):
            return
        for a, b in zip(ids, ids[1:] + ids[:1]):
            if not rec.check((a, b) not in directed, "stl_surface_consistent", sig, edge=[a, b]):
                return
            directed.add((a, b))
    rec.check(all((b, a) in directed for a, b in directed), "stl_surface_closed", sig)
    rec.check(count_by_face == [len(f) - 2 for f in F], "stl_triangle_count_per_face", sig, got=count_by_face[:8])
    want = [geom.face_area_centroid(V[f])[0] for f in F]
    L = maxnorm(V)
    rec.close("stl_triangles_tile_faces", area_by_face, want, 1e-9 * L * L, sig)


def clauses():
    return [Clause("export", _case(), _run, quick=1280, thorough=8000, rule="see RULE",
                   floors={"exponent_notation": 0.25, "deg>=5": 0.05, "nonconvex": 0.15, "negative_coords": 0.5})]


def selftest():
    mf.self_test()
    geom.self_test()
