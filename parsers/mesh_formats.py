"""Strict, hand-written readers for the mesh formats coxeter exports (no shared code
with coxeter.io).  Each returns (vertices list[[x,y,z]], faces list[list[int]], notes)
or raises FormatError with a precise message."""
import re
import xml.etree.ElementTree as ET
from html.parser import HTMLParser


class FormatError(Exception):
    pass


_FLOAT = re.compile(r"^[+-]?(?:\d+\.?\d*(?:[eE][+-]?\d+)?|\.\d+(?:[eE][+-]?\d+)?|inf|nan)$")
_INT = re.compile(r"^\d+$")


def _f(tok, where):
    if not _FLOAT.match(tok):
        raise FormatError(f"{where}: not a number: {tok!r}")
    return float(tok)


def _i(tok, where):
    if not _INT.match(tok):
        raise FormatError(f"{where}: not a non-negative integer: {tok!r}")
    return int(tok)


def parse_obj(text):
    verts, faces = [], []
    for ln, line in enumerate(text.split("\n"), 1):
        s = line.strip()
        if not s or s.startswith("#"):
            continue
        t = s.split()
        if t[0] == "v":
            if len(t) != 4:
                raise FormatError(f"OBJ line {ln}: vertex needs 3 coordinates")
            if faces:
                raise FormatError(f"OBJ line {ln}: vertex after faces")
            verts.append([_f(x, f"OBJ line {ln}") for x in t[1:]])
        elif t[0] == "f":
            if len(t) < 4:
                raise FormatError(f"OBJ line {ln}: face needs >= 3 indices")
            idx = [_i(x, f"OBJ line {ln}") for x in t[1:]]
            if any(i < 1 or i > len(verts) for i in idx):
                raise FormatError(f"OBJ line {ln}: index out of range (OBJ is 1-based)")
            faces.append([i - 1 for i in idx])
        else:
            raise FormatError(f"OBJ line {ln}: unknown record {t[0]!r}")
    return verts, faces, {}


def parse_off(text):
    lines = [l.strip() for l in text.split("\n")]
    notes = {}
    if not lines or lines[0] != "OFF":
        raise FormatError("OFF: first line must be 'OFF'")
    body = [l for l in lines[1:] if l and not l.startswith("#")]
    if not body:
        raise FormatError("OFF: missing counts line")
    t = body[0].split()
    if len(t) == 3 and all(_INT.match(x) for x in t):
        nv, nf, ne = (int(x) for x in t)
    elif len(t) == 3 and _INT.match(t[0]) and re.match(r"^f\d+$", t[1]) and _INT.match(t[2]):
        # known defect of the writer: a stray 'f' glued to the face count; recorded, then parsing goes on
        notes["header"] = "stray_f"
        nv, nf, ne = int(t[0]), int(t[1][1:]), int(t[2])
    else:
        raise FormatError(f"OFF: counts line must be three integers 'nV nF nE', got {body[0]!r}")
    rest = body[1:]
    if len(rest) != nv + nf:
        raise FormatError(f"OFF: declared {nv} vertices + {nf} faces but found {len(rest)} data lines")
    verts = []
    for k in range(nv):
        t = rest[k].split()
        if len(t) != 3:
            raise FormatError(f"OFF vertex {k}: need 3 coordinates")
        verts.append([_f(x, f"OFF vertex {k}") for x in t])
    faces = []
    for k in range(nf):
        t = rest[nv + k].split()
        n = _i(t[0], f"OFF face {k}")
        if len(t) != n + 1 or n < 3:
            raise FormatError(f"OFF face {k}: declared {n} indices, found {len(t) - 1}")
        idx = [_i(x, f"OFF face {k}") for x in t[1:]]
        if any(i >= nv for i in idx):
            raise FormatError(f"OFF face {k}: index out of range")
        faces.append(idx)
    notes.update(nv=nv, nf=nf, ne=ne)
    return verts, faces, notes


def parse_ply(text):
    lines = text.split("\n")
    if lines[0].strip() != "ply":
        raise FormatError("PLY: magic")
    if lines[1].strip() != "format ascii 1.0":
        raise FormatError("PLY: format line")
    i = 2
    elements = []
    while i < len(lines) and lines[i].strip() != "end_header":
        t = lines[i].split()
        if not t:
            raise FormatError("PLY: empty header line")
        if t[0] == "comment":
            pass
        elif t[0] == "element":
            if len(t) != 3:
                raise FormatError("PLY: element line")
            elements.append([t[1], _i(t[2], "PLY element count"), []])
        elif t[0] == "property":
            if not elements:
                raise FormatError("PLY: property before element")
            elements[-1][2].append(t[1:])
        else:
            raise FormatError(f"PLY: unknown header keyword {t[0]!r}")
        i += 1
    if i >= len(lines):
        raise FormatError("PLY: no end_header")
    if [e[0] for e in elements] != ["vertex", "face"]:
        raise FormatError(f"PLY: expected elements vertex, face; got {[e[0] for e in elements]}")
    if [p[-1] for p in elements[0][2]] != ["x", "y", "z"] or any(p[0] not in ("float", "double", "float32", "float64") for p in elements[0][2]):
        raise FormatError("PLY: vertex properties must be float x, y, z")
    fp = elements[1][2]
    if len(fp) != 1 or fp[0][0] != "list" or fp[0][-1] not in ("vertex_indices", "vertex_index"):
        raise FormatError("PLY: face property must be a list vertex_indices")
    nv, nf = elements[0][1], elements[1][1]
    data = [l for l in lines[i + 1:]]
    while data and data[-1].strip() == "":
        data.pop()
    if len(data) != nv + nf:
        raise FormatError(f"PLY: declared {nv}+{nf} records, found {len(data)}")
    verts = []
    for k in range(nv):
        t = data[k].split()
        if len(t) != 3:
            raise FormatError(f"PLY vertex {k}")
        verts.append([_f(x, f"PLY vertex {k}") for x in t])
    faces = []
    for k in range(nf):
        t = data[nv + k].split()
        n = _i(t[0], f"PLY face {k}")
        if n > 255 and fp[0][1] == "uchar":
            raise FormatError("PLY: list count exceeds uchar")
        if len(t) != n + 1 or n < 3:
            raise FormatError(f"PLY face {k}: count")
        idx = [_i(x, f"PLY face {k}") for x in t[1:]]
        if any(j >= nv for j in idx):
            raise FormatError(f"PLY face {k}: index out of range (PLY is 0-based)")
        faces.append(idx)
    return verts, faces, {"nv": nv, "nf": nf}


def parse_vtk(text):
    lines = text.split("\n")
    if not re.match(r"^# vtk DataFile Version \d+\.\d+$", lines[0]):
        raise FormatError("VTK: version line")
    if len(lines[1]) > 256:
        raise FormatError("VTK: title too long")
    if lines[2].strip() != "ASCII":
        raise FormatError("VTK: ASCII")
    if lines[3].strip() != "DATASET POLYDATA":
        raise FormatError("VTK: DATASET POLYDATA")
    t = lines[4].split()
    if len(t) != 3 or t[0] != "POINTS" or t[2] not in ("float", "double"):
        raise FormatError("VTK: POINTS line")
    nv = _i(t[1], "VTK POINTS")
    verts = []
    for k in range(nv):
        tt = lines[5 + k].split()
        if len(tt) != 3:
            raise FormatError(f"VTK point {k}")
        verts.append([_f(x, f"VTK point {k}") for x in tt])
    t = lines[5 + nv].split()
    if len(t) != 3 or t[0] != "POLYGONS":
        raise FormatError("VTK: POLYGONS line")
    nf, size = _i(t[1], "VTK POLYGONS"), _i(t[2], "VTK POLYGONS")
    rest = lines[6 + nv:]
    while rest and rest[-1].strip() == "":
        rest.pop()
    if len(rest) != nf:
        raise FormatError(f"VTK: declared {nf} polygons, found {len(rest)} lines")
    faces = []
    tot = 0
    for k in range(nf):
        tt = rest[k].split()
        n = _i(tt[0], f"VTK polygon {k}")
        if len(tt) != n + 1 or n < 3:
            raise FormatError(f"VTK polygon {k}: count")
        idx = [_i(x, f"VTK polygon {k}") for x in tt[1:]]
        if any(j >= nv for j in idx):
            raise FormatError(f"VTK polygon {k}: index out of range")
        faces.append(idx)
        tot += n + 1
    if tot != size:
        raise FormatError(f"VTK: POLYGONS size {size} != {tot}")
    return verts, faces, {"nv": nv, "nf": nf, "size": size}


def parse_stl(text):
    """-> (triangles [[v0,v1,v2]], normals [[nx,ny,nz]], name)"""
    toks = text.split()
    pos = 0

    def expect(*words):
        nonlocal pos
        for w in words:
            if pos >= len(toks) or toks[pos] != w:
                raise FormatError(f"STL: expected {w!r} at token {pos}, got {toks[pos] if pos < len(toks) else 'EOF'!r}")
            pos += 1

    expect("solid")
    name = toks[pos]
    pos += 1
    tris, norms = [], []
    while pos < len(toks) and toks[pos] == "facet":
        expect("facet", "normal")
        norms.append([_f(toks[pos + k], "STL normal") for k in range(3)])
        pos += 3
        expect("outer", "loop")
        tri = []
        for _ in range(3):
            expect("vertex")
            tri.append([_f(toks[pos + k], "STL vertex") for k in range(3)])
            pos += 3
        expect("endloop", "endfacet")
        tris.append(tri)
    expect("endsolid")
    if pos < len(toks):
        if toks[pos] != name or pos + 1 != len(toks):
            raise FormatError("STL: trailing tokens after endsolid")
    return tris, norms, name


def _ifs_from_root(root):
    def local(tag):
        return tag.split("}")[-1]

    ifs = [e for e in root.iter() if local(e.tag) == "IndexedFaceSet"]
    if len(ifs) != 1:
        raise FormatError(f"X3D: expected exactly one IndexedFaceSet, found {len(ifs)}")
    ifs = ifs[0]
    coord = [e for e in ifs if local(e.tag) == "Coordinate"]
    if len(coord) != 1:
        raise FormatError("X3D: IndexedFaceSet needs exactly one Coordinate child")
    ci = ifs.attrib.get("coordIndex")
    pt = coord[0].attrib.get("point")
    if ci is None or pt is None:
        raise FormatError("X3D: missing coordIndex/point")
    idx = []
    for t in ci.replace(",", " ").split():
        if not re.match(r"^-?\d+$", t):
            raise FormatError(f"X3D: bad index {t!r}")
        idx.append(int(t))
    nums = [_f(t, "X3D point") for t in pt.replace(",", " ").split()]
    if len(nums) % 3:
        raise FormatError("X3D: point count not a multiple of 3")
    pts = [nums[i:i + 3] for i in range(0, len(nums), 3)]
    faces, cur = [], []
    for i in idx:
        if i == -1:
            if len(cur) < 3:
                raise FormatError("X3D: face with < 3 indices")
            faces.append(cur)
            cur = []
        else:
            if i < 0 or i >= len(pts):
                raise FormatError("X3D: index out of range")
            cur.append(i)
    if cur:
        if len(cur) < 3:
            raise FormatError("X3D: face with < 3 indices")
        faces.append(cur)
    return pts, faces


def parse_x3d(text):
    try:
        root = ET.fromstring(text)
    except ET.ParseError as e:
        raise FormatError(f"X3D: not well-formed XML: {e}")
    if root.tag.split("}")[-1].lower() != "x3d":
        raise FormatError("X3D: root element must be X3D")
    pts, faces = _ifs_from_root(root)
    return pts, faces, {}


class _Balance(HTMLParser):
    VOID = {"link", "meta", "br", "img", "input", "hr"}

    def __init__(self):
        super().__init__()
        self.stack = []
        self.errors = []
        self.seen = []

    def handle_starttag(self, tag, attrs):
        self.seen.append(tag)
        if tag not in self.VOID:
            self.stack.append(tag)

    def handle_startendtag(self, tag, attrs):
        self.seen.append(tag)

    def handle_endtag(self, tag):
        if tag in self.VOID:
            return
        if not self.stack or self.stack[-1] != tag:
            self.errors.append(f"unbalanced </{tag}>")
        else:
            self.stack.pop()


def parse_html(text):
    if not text.startswith("<!DOCTYPE html>"):
        raise FormatError("HTML: missing doctype")
    b = _Balance()
    b.feed(text)
    if b.errors or b.stack:
        raise FormatError(f"HTML: tags not balanced: {b.errors[:2]} open={b.stack[:3]}")
    for need in ("html", "head", "body", "x3d"):
        if need not in b.seen:
            raise FormatError(f"HTML: no <{need}> element")
    try:
        root = ET.fromstring(text[len("<!DOCTYPE html>"):])
    except ET.ParseError as e:
        raise FormatError(f"HTML: not well-formed XHTML: {e}")
    pts, faces = _ifs_from_root(root)
    return pts, faces, {}


PARSERS = {"OBJ": parse_obj, "OFF": parse_off, "PLY": parse_ply, "VTK": parse_vtk, "X3D": parse_x3d, "HTML": parse_html}


def self_test():
    v, f, _ = parse_obj("# c\nv 0 0 0\nv 1 0 0\nv 0 1e-06 0\n\nf 1 2 3")
    assert v[2][1] == 1e-6 and f == [[0, 1, 2]]
    v, f, n = parse_off("OFF\n# x\n3 1 3\n0 0 0\n1 0 0\n0 1 0\n3 0 1 2")
    assert f == [[0, 1, 2]] and n["ne"] == 3
    _, _, n = parse_off("OFF\n3 f1 3\n0 0 0\n1 0 0\n0 1 0\n3 0 1 2")
    assert n["header"] == "stray_f"
    try:
        parse_off("OFF\n3 1\n0 0 0\n1 0 0\n0 1 0\n3 0 1 2")
        raise AssertionError
    except FormatError:
        pass
    t, nn, name = parse_stl("solid a\nfacet normal 0 0 1\n outer loop\n vertex 0 0 0\n vertex 1 0 0\n vertex 0 1 0\n endloop\nendfacet\nendsolid a")
    assert len(t) == 1 and name == "a"


if __name__ == "__main__":
    self_test()
    print("ok")
