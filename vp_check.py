#!/venv/bin/python
"""Single entry point: vp_check.py <Cnn> [--tier quick|thorough] [--replay FILE].

Exit 0: property held on everything explored (KNOWN-FINDING lines possible).
Exit 1: at least one line ``VIOLATION property=<id> replay=<path>``.
Exit 2: harness error / inconclusive (never a VIOLATION).
"""
import argparse
import os
import sys
import traceback

os.environ.setdefault("PYTHONHASHSEED", "0")
os.environ.setdefault("OMP_NUM_THREADS", "1")
os.environ.setdefault("OPENBLAS_NUM_THREADS", "1")
os.environ.setdefault("MKL_NUM_THREADS", "1")
ROOT = os.path.dirname(os.path.abspath(__file__))
sys.path.insert(0, ROOT)


def main():
    ap = argparse.ArgumentParser()
    ap.add_argument("check")
    ap.add_argument("--tier", default=os.environ.get("VERIF_TIER", "quick"), choices=["quick", "thorough"])
    ap.add_argument("--replay")
    a = ap.parse_args()
    try:
        from harness import runner

        return runner.main(a.check, a.tier, a.replay)
    except SystemExit:
        raise
    except BaseException:  # noqa: BLE001
        traceback.print_exc()
        print("HARNESS ERROR (not a violation)", file=sys.stderr)
        return 2


if __name__ == "__main__":
    sys.exit(main())
