#!/venv/bin/python
"""Sensitivity regression: apply every seeded change under seeded/ (or those matching a prefix) to a scratch worktree of
/repo HEAD and confirm that the checks recorded as detecting it still exit 1 with a VIOLATION line.

usage: recheck_seeded.py <scratch_worktree> [<id prefix>] ; exit 0 iff every change is still detected by >= 1 check.
The scratch worktree must be outside /repo and /verif (git -C /repo worktree add --detach <dir> HEAD) and is reset afterwards.
"""
import glob
import json
import os
import subprocess
import sys

ROOT = os.path.dirname(os.path.dirname(os.path.abspath(__file__)))
PY = "/venv/bin/python"


def sh(cmd, **kw):
    p = subprocess.run(cmd, shell=isinstance(cmd, str), capture_output=True, text=True, **kw)
    return p.returncode, p.stdout + p.stderr


def main():
    wt = sys.argv[1]
    prefix = sys.argv[2] if len(sys.argv) > 2 else ""
    head = sh("git -C /repo rev-parse HEAD")[1].strip()
    bad = []
    for d in sorted(glob.glob(os.path.join(ROOT, "seeded", prefix + "*"))):
        mid = os.path.basename(d)
        meta = json.load(open(os.path.join(d, "meta.json")))
        sh(f"git -C {wt} reset -q --hard && git -C {wt} clean -qfd && git -C {wt} checkout -q --detach {head}")
        rc, out = sh(f"git -C {wt} apply {d}/patch.diff")
        if rc != 0:
            print(mid, "PATCH DOES NOT APPLY", flush=True)
            bad.append(mid)
            continue
        checks = meta.get("detected_by") or [meta["property"]]
        own = meta["property"]
        order = ([own] if own in checks else []) + [c for c in checks if c != own]
        hit = None
        for c in order:
            rc, out = sh([PY, os.path.join(ROOT, "vp_check.py"), c, "--tier", "quick"], cwd=ROOT, env=dict(os.environ, VERIF_REPO=wt))
            if rc == 1 and "VIOLATION property=" in out:
                hit = c
                break
        sh(f"git -C {wt} reset -q --hard && git -C {wt} clean -qfd")
        print(mid, "detected by", hit, flush=True)
        if hit is None:
            bad.append(mid)
    sh(f"git -C {ROOT} checkout -q -- evidence")
    print("NOT DETECTED:", bad)
    sys.exit(1 if bad else 0)


if __name__ == "__main__":
    main()
