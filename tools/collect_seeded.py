#!/venv/bin/python
"""Copy confirmed seeded changes into /verif/seeded/<id>/ with a meta.json recording what was run.

usage: collect_seeded.py <mutant_root> <results.json> [<id prefix, e.g. R2->]
A change is kept only if: the patch applies to /repo HEAD, its demonstration exits 0 on the clean
tree and non-zero with the change, and the unedited suite passes with the change.
"""
import json
import os
import re
import shutil
import sys

ROOT = os.path.dirname(os.path.dirname(os.path.abspath(__file__)))


def main():
    root, resf = sys.argv[1:3]
    prefix = sys.argv[3] if len(sys.argv) > 3 else ""
    res = json.load(open(resf))
    kept, dropped = [], []
    for mid, r in sorted(res.items()):
        src = os.path.join(root, mid)
        suite = r.get("suite", "")
        ok = r.get("applies") and r.get("demo_clean") == 0 and r.get("demo_mutant") not in (0, None) and " passed" in suite \
            and not re.search(r"\d+ failed", suite) and not re.search(r"\d+ error", suite)
        if not ok:
            dropped.append((mid, {k: r.get(k) for k in ("applies", "demo_clean", "demo_mutant", "suite")}))
            continue
        dst = os.path.join(ROOT, "seeded", prefix + mid.replace("/", "-"))
        os.makedirs(dst, exist_ok=True)
        shutil.copy(os.path.join(src, "patch.diff"), dst)
        shutil.copy(os.path.join(src, "demo.py"), dst)
        meta = json.load(open(os.path.join(src, "meta.json"))) if os.path.exists(os.path.join(src, "meta.json")) else {}
        det = {c: v["exit"] for c, v in r.get("checks", {}).items() if not v.get("stale")}
        out = {
            "property": mid.split("/")[0],
            "character": {"X": "two cooperating sites", "Y": "history", "Z": "unusual input"}.get(meta.get("character"), meta.get("character")),
            "summary": meta.get("summary"),
            "needs": meta.get("needs"),
            "files": meta.get("files"),
            "author": "independent sub-agent given only the property text and a scratch worktree",
            "confirmed_by_me": {
                "patch_applies_to_repo_head": True,
                "demo_exit_on_clean_tree": r["demo_clean"],
                "demo_exit_with_change": r["demo_mutant"],
                "demo_first_line_with_change": r.get("demo_mutant_out"),
                "unedited_suite_with_change": r.get("suite"),
                "how": "tools/run_mutants.py: git apply in a scratch worktree of /repo HEAD, demo.py with PYTHONPATH=<worktree>, "
                       "pytest -n 12 -x, then the quick checks with VERIF_REPO=<worktree>",
            },
            "quick_check_exit_codes": det,
            "detected_by": sorted(c for c, e in det.items() if e == 1),
            "buckets": {c: v.get("buckets") for c, v in r.get("checks", {}).items() if v.get("exit") == 1 and not v.get("stale")},
            "suite_rerun": r.get("suite_rerun"),
        }
        json.dump(out, open(os.path.join(dst, "meta.json"), "w"), indent=1)
        kept.append((mid, out["detected_by"]))
    print("kept", len(kept))
    for k in kept:
        print("  ", k[0], "detected by", k[1] or "NONE")
    print("dropped", dropped)


if __name__ == "__main__":
    main()
