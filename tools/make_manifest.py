#!/venv/bin/python
"""Regenerate MANIFEST.json from the table below and validate it against the schema."""
import json
import os
import sys

ROOT = os.path.dirname(os.path.dirname(os.path.abspath(__file__)))
sys.path.insert(0, ROOT)
sys.path.insert(1, os.path.join(ROOT, ".deps"))

CHECKS = {
    "C01": ("5/C01", "Hypothesis-generated convex vertex sets vs brute-force facets + exact tetrahedral moments (Fraction for lattice input); metamorphic vertex-order independence"),
    "C02": ("5/C02", "generated closed meshes (polycubes incl. genus 1, extrusions, star meshes; anchored at the origin, scales 1e-8..1e6, every faces_are_convex setting, face index container and vertex container/dtype) vs signed-tetrahedron moments cross-checked with the voxel closed form; metamorphic float32-array vs float64-array twin"),
    "C03": ("5/C03", "model-based operation sequences on 12 shape kinds: exhaustive words of length <=2 (<=3 thorough) plus drawn histories; invariant after every step = equality with a freshly constructed shape; refused operations change nothing; caller arrays scribbled on afterwards"),
    "C04": ("5/C04", "generated simple polygons in every orientation/plane/normal argument and vertex container/dtype vs shoelace integrals in a harness frame (Fraction for integer polygons); metamorphic float32-array vs float64-array twin"),
    "C05": ("5/C05", "generated shapes x near-boundary/coordinate-aligned query points vs facet distances, solid-angle winding number and distance-to-core oracles; batch/single/permutation relations"),
    "C06": ("5/C06", "generated polygons/circles/ellipses (also 1e3..1e8 sizes from the origin) x near-boundary/aligned in-plane points vs crossing number and quadratic-form oracles"),
    "C07": ("5/C07", "generated hulls, shuffled faces (sort_faces) and triangulated facets (merge_faces) vs brute-force facet/edge/neighbour structure"),
    "C08": ("5/C08", "reflection-enumerated setters x generated targets: read-back, similarity of defining data, coherence with a fresh shape; bad targets refused atomically"),
    "C09": ("5/C09", "metamorphic: every reflection-enumerated observable of g.x (rotation x translation x scale 1e-3..1e3 x relabelling) vs the transformation rule applied to x"),
    "C10": ("5/C10", "generated radii/axes/centres (ties, near-ties, needle/disc; Python and numpy float/int scalar parameters, integer-typed centres) vs 40-digit mpmath closed forms (E, Carlson R_G) validated by quadrature"),
    "C11": ("5/C11", "generated convex cores x rounding radii vs Steiner polynomials built from the exact core oracles and an edge/exterior-angle mean curvature; metamorphic float32-array vs float64-array twin"),
    "C12": ("5/C12", "generated shapes x wave vectors (generic, special directions, approach sequences, batch sizes) vs exact Fourier integral by divided differences of exp; conjugation/translation/density/batch relations"),
    "C13": ("5/C13", "shapes tangential/cyclic/both/neither by construction vs validity predicates: exact smallest enclosing ball (brute force), centred balls, tangency/equidistance, existence by least-squares misfit"),
    "C14": ("5/C14", "generated circles/ellipses/convex polygons/spheropolygons x angle arrays (any reals, vertex and axis directions) vs ray-boundary intersection from the exact centroid (bisection for rounded shapes)"),
    "C15": ("5/C15", "generated valid/invalid constructor inputs with margins (crossings, off-plane, duplicates, interior points, bad radii) vs exact classification; aliasing of caller arrays probed by mutating them afterwards"),
    "C16": ("5/C16", "exhaustive ordered pairs (q1,q2) of the reflection-enumerated query alphabet on 17 base shapes; untouched-twin comparison, handed-out arrays, argument arrays, repeatability"),
    "C17": ("5/C17", "generated/grid parameters vs half-space intersection from symmetry-generated planes (cross-checked with scipy HalfspaceIntersection); exhaustive n=3..200 for uniform families; call sequences with mixed parameter types evaluated in fresh interpreters"),
    "C18": ("5/C18", "complete enumeration of the 290 tabulated entries vs hand-entered textbook counts, brute-force facets, regularity and insphere predicates; repeated failed look-ups and near-miss names; one cross-family history (keyword calls, foreign names after the other families were built)"),
    "C19": ("5/C19", "generated shapes and hand-built GSD dicts: gsd/repr/to_json round trips and to_hoomd judged by rebuilding the shape from the returned data with the harness oracles"),
    "C20": ("5/C20", "generated polyhedra exported in 7 formats and read back by independent strict parsers; STL tiling/orientation predicates; export leaves observables unchanged; export-change-export histories; inputs 1e6 diameters from the origin and at scale 1e-12"),
}
NOT_APPLICABLE = {}

PY = "/venv/bin/python"


def main():
    props = [json.loads(l)["id"] for l in open(os.path.join(ROOT, "properties.jsonl"))]
    checks = []
    for pid in props:
        if pid not in CHECKS:
            continue
        ref, tech = CHECKS[pid]
        checks.append({
            "property_id": pid,
            "quick_cmd": f"{PY} vp_check.py {pid} --tier quick",
            "thorough_cmd": f"{PY} vp_check.py {pid} --tier thorough",
            "evidence_file": f"evidence/{pid}.json",
            "replay_cmd_template": f"{PY} vp_check.py {pid} --replay {{path}}",
            "engine": "hypothesis-clauses",
            "level_claimed": {
                "category": "exploration",
                "text": "Generated-input search (Hypothesis, sharded over 16 processes) against an independent executable oracle; "
                        "finds violations, never proves absence. Counts of generated and non-trivial cases, input-class "
                        "histograms and observed error/tolerance margins are in the evidence file.",
                "design_ref": f"DESIGN.md section {ref}",
            },
            "level_note": "Trusted base: numpy/scipy linear algebra, mpmath, Python Fraction, Hypothesis, the self-tested harness oracles under oracle/. "
                          "Decision boundaries (points on surfaces, nearly crossing/coplanar input) are excluded by stated margins.",
            "technique": "property-based testing: " + tech,
        })
    na = [{"property_id": p, "reason": NOT_APPLICABLE.get(p, "check not built yet in this checkout; see DESIGN.md section 5")}
          for p in props if p not in CHECKS]
    man = {
        "version": 1,
        "setup_cmd": f"{PY} -c \"import sys; sys.path.insert(0,'.'); from harness import env; env.ensure_deps(); env.import_coxeter(); print('ok')\"",
        "hooks": {"guard": "COXETER_VERIF", "enable": "none needed: every property is observable through the public API; no hook commits exist",
                  "baseline_off_cmd": "cd /repo && /venv/bin/python -m pytest -q -p no:cacheprovider --timeout=900 -n 8",
                  "source_commits": [], "add_only": True},
        "engines": [{"name": "hypothesis-clauses", "path": "harness/runner.py", "serves_properties": sorted(CHECKS),
                     "kind_free_text": "Hypothesis 6.168 clauses (strategy + oracle + non-trivial rule), bucketed collect-then-shrink, known-finding exclusion, evidence writer"}],
        "checks": checks,
        "not_applicable": na,
        "notes": "Single entry point vp_check.py; VERIF_SEED seeds every clause; exit 2 = harness error/inconclusive (never a VIOLATION). Known findings: KNOWN_FINDINGS.txt.",
    }
    path = os.path.join(ROOT, "MANIFEST.json")
    json.dump(man, open(path, "w"), indent=1)
    try:
        import jsonschema
        jsonschema.validate(man, json.load(open("/root/.vp/MANIFEST.schema.json")))
        for c in checks:
            ev = os.path.join(ROOT, c["evidence_file"])
            if os.path.exists(ev):
                jsonschema.validate(json.load(open(ev)), json.load(open("/root/.vp/EVIDENCE.schema.json")))
        print("MANIFEST.json valid;", len(checks), "checks")
    except ImportError:
        print("jsonschema not available; wrote without validation")


if __name__ == "__main__":
    main()
