#!/venv/bin/python
"""Second pass over a mutant campaign: re-run suites that failed under load, re-run the detecting checks with the
checks as they are now, and write the merged result file used by collect_seeded.py.

usage: finalize_round.py <mutant_root> <scratch_worktree> <merged_out.json> <results1.json> [<results2.json> ...]
"""
import json
import os
import re
import subprocess
import sys

ROOT = os.path.dirname(os.path.dirname(os.path.abspath(__file__)))
PY = "/venv/bin/python"


def sh(cmd, cwd=None, env=None, timeout=7200):
    p = subprocess.run(cmd, cwd=cwd, env=env, shell=isinstance(cmd, str), capture_output=True, text=True, timeout=timeout)
    return p.returncode, p.stdout + p.stderr


def main():
    root, wt, outp = sys.argv[1:4]
    res = {}
    for f in sys.argv[4:]:
        res.update(json.load(open(f)))
    head = sh("git -C /repo rev-parse HEAD")[1].strip()
    only = os.environ.get("ONLY")
    for mid in sorted(res):
        if only and mid not in only.split(","):
            continue
        r = res[mid]
        d = os.path.join(root, mid)
        prop = mid.split("/")[0]
        sh(f"git -C {wt} reset -q --hard && git -C {wt} clean -qfd && git -C {wt} checkout -q --detach {head}")
        envd = dict(os.environ, PYTHONPATH=wt)
        r["demo_clean"] = sh([PY, os.path.join(d, "demo.py")], cwd=wt, env=envd)[0]
        rc, out = sh(f"git -C {wt} apply {d}/patch.diff")
        r["applies"] = rc == 0
        if rc != 0:
            print(mid, "PATCH DOES NOT APPLY", flush=True)
            continue
        rc, out = sh([PY, os.path.join(d, "demo.py")], cwd=wt, env=envd)
        r["demo_mutant"] = rc
        r["demo_mutant_out"] = out.strip().split("\n")[0][:200]
        suite = r.get("suite", "")
        if " passed" not in suite or re.search(r"\d+ (failed|error)", suite):
            for attempt in range(3):
                rc, out = sh(f"cd {wt} && {PY} -m pytest -q -p no:cacheprovider -n 8 2>&1 | tail -15")
                last = out.strip().split("\n")[-1][:160]
                failed = sorted(set(re.findall(r"FAILED (\S+)", out)))
                r["suite"] = last
                r["suite_rerun"] = {"attempt": attempt + 1, "failed": failed}
                if " passed" in last and not re.search(r"\d+ (failed|error)", last):
                    break
        checks = [prop] + sorted(c for c, v in r.get("checks", {}).items() if v.get("exit") == 1 and c != prop)
        newc = {}
        for c in checks:
            env2 = dict(os.environ, VERIF_REPO=wt)
            rc, out = sh([PY, os.path.join(ROOT, "vp_check.py"), c, "--tier", "quick"], cwd=ROOT, env=env2)
            newc[c] = {"exit": rc, "buckets": re.findall(r"bucket (\S+) x(\d+)", out)[:6],
                       "tail": out.strip().split("\n")[-1][:200] if rc not in (0, 1) else ""}
        for c, v in r.get("checks", {}).items():
            if c not in newc:
                newc[c] = dict(v, stale=True) if v.get("exit") != 1 else v
        r["checks"] = newc
        sh(f"git -C {wt} reset -q --hard && git -C {wt} clean -qfd")
        print(mid, "demo", r["demo_clean"], r["demo_mutant"], "suite:", r.get("suite"), r.get("suite_rerun", ""),
              "caught by", sorted(c for c, v in newc.items() if v.get("exit") == 1 and not v.get("stale")), flush=True)
        json.dump(res, open(outp, "w"), indent=1)
    json.dump(res, open(outp, "w"), indent=1)
    sh(f"git -C {ROOT} checkout -q -- evidence")


if __name__ == "__main__":
    main()
