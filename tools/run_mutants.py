#!/venv/bin/python
"""Apply each candidate mutant to a scratch worktree, confirm its demo flips, and run our check(s) against it.

usage: run_mutants.py <mutant_root> <scratch_worktree> [--suite] [--only C05/A ...] [--checks C05,C03]
"""
import argparse
import glob
import json
import os
import re
import subprocess
import sys

ROOT = os.path.dirname(os.path.dirname(os.path.abspath(__file__)))
PY = "/venv/bin/python"


def sh(cmd, cwd=None, env=None, timeout=3600):
    p = subprocess.run(cmd, cwd=cwd, env=env, shell=isinstance(cmd, str), capture_output=True, text=True, timeout=timeout)
    return p.returncode, (p.stdout + p.stderr)


def main():
    ap = argparse.ArgumentParser()
    ap.add_argument("root")
    ap.add_argument("wt")
    ap.add_argument("--suite", action="store_true")
    ap.add_argument("--only", nargs="*")
    ap.add_argument("--checks")
    ap.add_argument("--map", help="JSON file: mutant id -> list of checks to run (overrides --checks for the ids it lists)")
    ap.add_argument("--tier", default="quick")
    ap.add_argument("--out", default=None)
    a = ap.parse_args()
    head = sh("git -C /repo rev-parse HEAD")[1].strip()
    results = {}
    dirs = sorted(glob.glob(os.path.join(a.root, "C*", "*", "patch.diff")))
    for pf in dirs:
        d = os.path.dirname(pf)
        mid = "/".join(d.split("/")[-2:])
        if a.only and mid not in a.only:
            continue
        prop = mid.split("/")[0]
        res = {"id": mid}
        sh(f"git -C {a.wt} reset -q --hard && git -C {a.wt} clean -qfd && git -C {a.wt} checkout -q --detach {head}")
        env = dict(os.environ, PYTHONPATH=a.wt)
        rc, out = sh([PY, os.path.join(d, "demo.py")], cwd=a.wt, env=env)
        res["demo_clean"] = rc
        rc, out = sh(f"git -C {a.wt} apply {pf}")
        res["applies"] = rc == 0
        if rc != 0:
            res["apply_error"] = out[-300:]
            results[mid] = res
            print(mid, "PATCH DOES NOT APPLY")
            continue
        rc, out = sh([PY, os.path.join(d, "demo.py")], cwd=a.wt, env=env)
        res["demo_mutant"] = rc
        res["demo_mutant_out"] = out.strip().split("\n")[0][:200]
        checks = [prop]
        per = json.load(open(a.map)).get(mid) if a.map else None
        if per:
            checks = [prop if x == "OWN" else x for x in per]
        elif a.checks:
            checks = []
            for c in a.checks.split(","):
                c = prop if c == "OWN" else c
                if c not in checks:
                    checks.append(c)
        res["checks"] = {}
        for c in checks:
            env2 = dict(os.environ, VERIF_REPO=a.wt)
            rc, out = sh([PY, os.path.join(ROOT, "vp_check.py"), c, "--tier", a.tier], cwd=ROOT, env=env2)
            buckets = re.findall(r"bucket (\S+) x(\d+)", out)
            res["checks"][c] = {"exit": rc, "buckets": buckets[:6], "tail": out.strip().split("\n")[-1][:200] if rc not in (0, 1) else ""}
            sh(f"rm -rf {ROOT}/replays/{c}")
        if a.suite:
            rc, out = sh(f"cd {a.wt} && {PY} -m pytest -q -p no:cacheprovider -n 12 -x 2>&1 | tail -3")
            res["suite"] = out.strip().split("\n")[-1][:160]
        sh(f"git -C {a.wt} reset -q --hard && git -C {a.wt} clean -qfd")
        results[mid] = res
        det = {c: v["exit"] for c, v in res["checks"].items()}
        print(mid, "demo clean/mutant:", res["demo_clean"], res["demo_mutant"], "checks:", det, res.get("suite", ""), flush=True)
    out = a.out or os.path.join(a.root, "results.json")
    old = json.load(open(out)) if os.path.exists(out) else {}
    old.update(results)
    json.dump(old, open(out, "w"), indent=1)
    # evidence files were rewritten against the scratch tree: restore them from git
    sh(f"git -C {ROOT} checkout -q -- evidence")


if __name__ == "__main__":
    main()
