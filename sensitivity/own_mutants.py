#!/venv/bin/python
"""Hand-written one-line mutants (DESIGN section 7): apply to a scratch worktree, run the named quick check.

usage: own_mutants.py <scratch_worktree> [name ...]
Each entry: (name, check, file, old, new). Results are appended to sensitivity/RESULTS.md by hand.
"""
import os
import re
import subprocess
import sys

ROOT = os.path.dirname(os.path.dirname(os.path.abspath(__file__)))
M = [
    ("C01-swap-inertia-subscripts", "C01", "coxeter/shapes/convex_polyhedron.py", "i_xz = i_nm(n, q, q2, w, at, sub=[0, 2])", "i_xz = i_nm(n, q, q2, w, at, sub=[1, 2])"),
    ("C01-centroid-from-vertex-mean", "C01", "coxeter/shapes/convex_polyhedron.py", "        self._centroid = (\n            1\n            / (48 * self._volume)\n            * np.sum(n * ((a + b) ** 2 + (b + c) ** 2 + (a + c) ** 2), axis=0)\n        )", "        self._centroid = np.mean(self._vertices, axis=0)"),
    ("C03-rescale-forgets-area", "C03", "coxeter/shapes/convex_polyhedron.py", "        self._area = self._area * scale_factor**2\n", ""),
    ("C02-centroid-volume-component", "C02", "coxeter/shapes/polyhedron.py", "        return np.array(center) / volume / 4", "        return np.array(center) / abs(volume) / 4 * np.sign(volume) * (1 if volume > 0 else -1) * (1 + 1e-7)"),
    ("C04-area-drops-projection-rescale", "C04", "coxeter/shapes/polygon.py", "        ) * (an / (2 * self._normal[proj_coord]))", "        ) * (an / (2 * np.sign(self._normal[proj_coord])))"),
    ("C05-sphero-edge-projection-unnormalised", "C05", "coxeter/shapes/convex_spheropolyhedron.py", "edge_projections = np.sum(point_to_edge_starts * face_edges_norm, axis=1)", "edge_projections = np.sum(point_to_edge_starts * face_edges, axis=1)"),
    ("C06-drop-zero-handling", "C06", "coxeter/shapes/polygon.py", "        vertex_sign_p1[zeros_p1] = np.sign(diff_y_p1)[zeros_p1]\n", ""),
    ("C07-skip-final-orientation-flip", "C07", "coxeter/shapes/polyhedron.py", "        if self.volume < 0:\n            for i in range(len(self.faces)):", "        if False:\n            for i in range(len(self.faces)):"),
    ("C08-area-setter-without-root", "C08", "coxeter/shapes/polygon.py", "        scale = np.sqrt(value / self.area)\n        self._rescale(scale)", "        scale = value / self.area\n        self._rescale(scale)"),
    ("C10-ellipsoid-inertia-axes-swapped", "C10", "coxeter/shapes/ellipsoid.py", "        i_yy = vol / 5 * (self.a**2 + self.c**2)", "        i_yy = vol / 5 * (self.b**2 + self.c**2)"),
    ("C11-mean-curvature-4pi", "C11", "coxeter/shapes/convex_polyhedron.py", "        return unnorm_r / (8 * np.pi)", "        return unnorm_r / (4 * np.pi)"),
    ("C12-drop-face-phase", "C12", "coxeter/shapes/polyhedron.py", "            exp_qr = np.exp(-1j * qs_dot_norm * d)", "            exp_qr = np.exp(-0j * qs_dot_norm * d)"),
    ("C13-centred-bounding-uses-min", "C13", "coxeter/shapes/convex_polyhedron.py", "np.linalg.norm(self.vertices - self.center, axis=-1).max(), self.center", "np.linalg.norm(self.vertices - self.center, axis=-1).min(), self.center"),
    ("C14-angular-bin-off-by-one", "C14", "coxeter/shapes/convex_polygon.py", "        angles_shifted = np.roll(angles_to_vertices, shift=-1, axis=0)", "        angles_shifted = np.roll(angles_to_vertices, shift=1, axis=0)"),
    ("C15-accept-hull-with-interior-points", "C15", "coxeter/shapes/convex_polyhedron.py", "        if not len(hull.vertices) == len(self._vertices):", "        if len(hull.vertices) < len(self._vertices) - 1:"),
    ("C16-to-hoomd-does-not-restore", "C16", "coxeter/shapes/polyhedron.py", "        self.centroid = old_centroid\n        return hoomd_dict", "        return hoomd_dict"),
    ("C17-domain-check-strict", "C17", "coxeter/families/plane_shape_families.py", "        if not 1 <= a <= 2:", "        if not 1 < a <= 2:"),
    ("C17-dedup-threshold-1e-3", "C17", "coxeter/families/plane_shape_families.py", "passed_plane_test.round(6), axis=0, return_index=True", "passed_plane_test.round(2), axis=0, return_index=True"),
    ("C19-spec-drops-rounding-radius", "C19", "coxeter/shapes/convex_spheropolyhedron.py", '            "rounding_radius": self.radius,\n', ""),
    ("C20-ply-one-based", "C20", "coxeter/io.py", "content += f\"{len(f)} {' '.join([str(int(v_index)) for v_index in f])}\\n\"", "content += f\"{len(f)} {' '.join([str(int(v_index) + 1) for v_index in f])}\\n\""),
    ("C20-vtk-reversed-faces", "C20", "coxeter/io.py", "        content += f\"{len(f)} {' '.join([str(v_index) for v_index in f])}\\n\"\n    content = content.rstrip", "        content += f\"{len(f)} {' '.join([str(v_index) for v_index in f[::-1]])}\\n\"\n    content = content.rstrip"),
    ("C04-new-absolute-threshold", "C04", "coxeter/shapes/polygon.py", "        return np.abs(self.signed_area)", "        return np.abs(self.signed_area) if np.abs(self.signed_area) > 1e-7 else 0.0"),
    ("C09-new-absolute-threshold-in-range", "C09", "coxeter/shapes/polygon.py", "        return np.abs(self.signed_area)", "        return np.abs(self.signed_area) if np.abs(self.signed_area) > 1e-5 else 0.0"),
]


def sh(cmd, **kw):
    p = subprocess.run(cmd, shell=True, capture_output=True, text=True, **kw)
    return p.returncode, p.stdout + p.stderr


def main():
    wt = sys.argv[1]
    only = sys.argv[2:]
    head = sh("git -C /repo rev-parse HEAD")[1].strip()
    for name, check, fn, old, new in M:
        if only and name not in only:
            continue
        sh(f"git -C {wt} reset -q --hard && git -C {wt} checkout -q --detach {head}")
        p = os.path.join(wt, fn)
        s = open(p).read()
        if s.count(old) != 1:
            print(f"{name}: PATTERN NOT FOUND ({s.count(old)})")
            continue
        open(p, "w").write(s.replace(old, new))
        rc, out = sh(f"/venv/bin/python {ROOT}/vp_check.py {check} --tier quick", cwd=ROOT, env=dict(os.environ, VERIF_REPO=wt))
        b = re.findall(r"bucket (\S+) x(\d+)", out)
        print(f"{name}: {check} exit={rc} first_buckets={b[:2]}", flush=True)
        sh(f"rm -rf {ROOT}/replays/{check}")
    sh(f"git -C {wt} reset -q --hard")
    sh(f"git -C {ROOT} checkout -q -- evidence")


if __name__ == "__main__":
    main()
