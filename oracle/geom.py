"""Independent geometric oracles (no coxeter, no rowan, no Qhull).

* brute-force convex-hull facets from vertex triples,
* exact polynomial moments of closed oriented meshes by signed tetrahedra over a fan
  triangulation (extended precision, or ``Fraction`` for integer input),
* planar polygon moments in a harness-built orthonormal frame,
* point/solid membership by solid-angle winding number, distances to triangles.
"""
import itertools
import math
from fractions import Fraction

import numpy as np

LD = np.longdouble


# ------------------------------------------------------------------------ convex facets
class OracleUnreliable(Exception):
    """The input is too close to a decision boundary for this oracle (e.g. nearly coplanar data
    given with few digits); the case is counted and skipped, never judged."""


def convex_facets(points, rel=1e-9):
    """Robust wrapper: the facet complex must be a closed oriented surface; otherwise the coplanarity
    tolerance is widened (data tabulated with ~9 digits), and if that does not help the oracle abstains."""
    last = None
    for r in (rel, rel * 100, rel * 1e4):
        out = _convex_facets(points, r)
        if len(out[0]) >= 4 and mesh_is_closed_oriented(out[0]):
            return out
        last = out
    raise OracleUnreliable("facets of the hull do not form a closed surface at any tolerance")


def _convex_facets(points, rel=1e-9):
    """Facets of conv(points) by brute force over vertex triples.

    Returns (facets, normals, offsets, is_vertex): facets are lists of vertex indices
    ordered counter-clockwise seen from outside; normals are unit outward normals and
    offsets d with n.x <= d inside.  ``is_vertex[i]`` tells whether point i lies on
    some supporting plane as an extreme point (i.e. is a hull vertex in the sense that
    it belongs to at least one facet's extreme set).
    """
    P = np.asarray(points, dtype=float)
    n = len(P)
    cen = P.mean(axis=0)
    Q = P - cen
    diam = float(np.max(np.linalg.norm(Q, axis=1))) * 2 or 1.0
    tri = np.array(list(itertools.combinations(range(n), 3)))
    a, b, c = Q[tri[:, 0]], Q[tri[:, 1]], Q[tri[:, 2]]
    nrm = np.cross(b - a, c - a)
    ln = np.linalg.norm(nrm, axis=1)
    ok = ln > 1e-12 * diam * diam
    tri, nrm, ln, a = tri[ok], nrm[ok], ln[ok], a[ok]
    nrm = nrm / ln[:, None]
    d = np.einsum("tk,pk->tp", nrm, Q) - np.einsum("tk,tk->t", nrm, a)[:, None]
    tol = rel * diam
    below = (d <= tol).all(axis=1)
    above = (d >= -tol).all(axis=1)
    facets = {}
    for t in np.nonzero(below | above)[0]:
        on = frozenset(np.nonzero(np.abs(d[t]) <= tol)[0].tolist())
        if on in facets:
            continue
        nn = nrm[t] if below[t] else -nrm[t]
        facets[on] = nn
    out_f, out_n, out_d = [], [], []
    for on, nn in facets.items():
        idx = sorted(on)
        pts = Q[idx]
        # keep only the extreme points of the facet polygon, ordered ccw about nn
        order = _ccw_hull_order(pts, nn)
        face = [idx[i] for i in order]
        # refit normal from the whole facet (Newell) for accuracy
        nw = newell_normal(Q[face])
        nw = nw / np.linalg.norm(nw)
        if np.dot(nw, nn) < 0:
            nw = -nw
        out_f.append(face)
        out_n.append(nw)
        out_d.append(float(np.dot(nw, P[face].mean(axis=0))))
    is_vertex = np.zeros(n, dtype=bool)
    for f in out_f:
        is_vertex[f] = True
    return out_f, np.array(out_n), np.array(out_d), is_vertex


def newell_normal(pts):
    pts = np.asarray(pts, dtype=float)
    nxt = np.roll(pts, -1, axis=0)
    return np.array([
        np.sum((pts[:, 1] - nxt[:, 1]) * (pts[:, 2] + nxt[:, 2])),
        np.sum((pts[:, 2] - nxt[:, 2]) * (pts[:, 0] + nxt[:, 0])),
        np.sum((pts[:, 0] - nxt[:, 0]) * (pts[:, 1] + nxt[:, 1])),
    ])


def plane_frame(normal):
    """Right-handed orthonormal (u, v, n) with n the given direction."""
    n = np.asarray(normal, dtype=float)
    n = n / np.linalg.norm(n)
    k = int(np.argmin(np.abs(n)))
    e = np.zeros(3)
    e[k] = 1.0
    u = e - np.dot(e, n) * n
    u /= np.linalg.norm(u)
    v = np.cross(n, u)
    return u, v, n


def _ccw_hull_order(pts, nn):
    """Indices of the convex-hull vertices of coplanar pts, ccw about nn (monotone chain)."""
    u, v, _ = plane_frame(nn)
    c = pts.mean(axis=0)
    xy = np.stack([(pts - c) @ u, (pts - c) @ v], axis=1)
    scale = np.max(np.abs(xy)) or 1.0
    # quantise before sorting so that points on a common vertical line tie exactly
    # (otherwise rounding noise picks a non-extreme point as the chain's end point)
    key = np.round(xy / (1e-9 * scale))
    order = sorted(range(len(xy)), key=lambda i: (key[i, 0], key[i, 1]))

    def cross(o, a, b):
        return (xy[a, 0] - xy[o, 0]) * (xy[b, 1] - xy[o, 1]) - (xy[a, 1] - xy[o, 1]) * (xy[b, 0] - xy[o, 0])

    eps = 1e-9 * scale * scale
    lower = []
    for i in order:
        while len(lower) >= 2 and cross(lower[-2], lower[-1], i) <= eps:
            lower.pop()
        lower.append(i)
    upper = []
    for i in reversed(order):
        while len(upper) >= 2 and cross(upper[-2], upper[-1], i) <= eps:
            upper.pop()
        upper.append(i)
    return lower[:-1] + upper[:-1]


def convex_facets_int(points):
    """Exact version for integer coordinates (python ints). Same return convention,
    normals/offsets as integer vectors (not normalised)."""
    P = [tuple(int(x) for x in p) for p in points]
    n = len(P)
    facets = {}
    for i, j, k in itertools.combinations(range(n), 3):
        a, b, c = P[i], P[j], P[k]
        ux, uy, uz = b[0] - a[0], b[1] - a[1], b[2] - a[2]
        vx, vy, vz = c[0] - a[0], c[1] - a[1], c[2] - a[2]
        nx, ny, nz = uy * vz - uz * vy, uz * vx - ux * vz, ux * vy - uy * vx
        if nx == 0 and ny == 0 and nz == 0:
            continue
        d0 = nx * a[0] + ny * a[1] + nz * a[2]
        ds = [nx * p[0] + ny * p[1] + nz * p[2] - d0 for p in P]
        if all(x <= 0 for x in ds):
            sgn = 1
        elif all(x >= 0 for x in ds):
            sgn = -1
        else:
            continue
        on = frozenset(t for t, x in enumerate(ds) if x == 0)
        if on not in facets:
            facets[on] = (sgn * nx, sgn * ny, sgn * nz)
    out_f, out_n = [], []
    for on, nn in facets.items():
        idx = sorted(on)
        pts = np.array([P[t] for t in idx], dtype=float)
        order = _ccw_hull_order(pts - pts.mean(axis=0), np.array(nn, dtype=float))
        out_f.append([idx[t] for t in order])
        out_n.append(nn)
    is_vertex = [False] * n
    for f in out_f:
        for t in f:
            is_vertex[t] = True
    return out_f, out_n, is_vertex


# ------------------------------------------------------------------------- mesh moments
def fan_triangles(faces):
    for f in faces:
        for i in range(1, len(f) - 1):
            yield f[0], f[i], f[i + 1]


def mesh_moments(verts, faces):
    """Volume, centroid and second-moment matrix S_ij = int x_i x_j dV about the origin.

    Faces must be oriented counter-clockwise seen from outside and be fan-triangulable
    (convex).  Uses extended precision and a reference point at the vertex mean.
    Returns dict(volume, centroid, S, inertia) as float64 arrays; inertia is the usual
    tensor about the *origin*: I = tr(S) 1 - S.
    """
    V = np.asarray(verts, dtype=LD)
    ref = V.mean(axis=0)
    W = V - ref
    tri = np.array(list(fan_triangles(faces)))
    a, b, c = W[tri[:, 0]], W[tri[:, 1]], W[tri[:, 2]]
    det = np.einsum("ij,ij->i", a, np.cross(b, c))
    vol6 = det.sum()
    s = a + b + c
    m1 = (det[:, None] * s).sum(axis=0) / LD(24)
    S = (np.einsum("t,ti,tj->ij", det, a, a) + np.einsum("t,ti,tj->ij", det, b, b)
         + np.einsum("t,ti,tj->ij", det, c, c) + np.einsum("t,ti,tj->ij", det, s, s)) / LD(120)
    vol = vol6 / LD(6)
    cen_rel = m1 / vol
    # shift second moments from ref to origin: x = w + ref
    S0 = S + np.outer(m1, ref) + np.outer(ref, m1) + vol * np.outer(ref, ref)
    cen = cen_rel + ref
    I0 = np.trace(S0) * np.eye(3, dtype=LD) - S0
    Sc = S - vol * np.outer(cen_rel, cen_rel)
    Ic = np.trace(Sc) * np.eye(3, dtype=LD) - Sc
    return {"volume": float(vol), "centroid": np.asarray(cen, dtype=float), "S": np.asarray(S0, dtype=float),
            "inertia": np.asarray(I0, dtype=float), "inertia_centroidal": np.asarray(Ic, dtype=float)}


def mesh_moments_exact(verts, faces):
    """Same as mesh_moments with Fraction arithmetic (integer or Fraction coordinates)."""
    V = [[Fraction(x) for x in v] for v in verts]
    vol6 = Fraction(0)
    m1 = [Fraction(0)] * 3
    S = [[Fraction(0)] * 3 for _ in range(3)]
    for i, j, k in fan_triangles(faces):
        a, b, c = V[i], V[j], V[k]
        det = (a[0] * (b[1] * c[2] - b[2] * c[1]) - a[1] * (b[0] * c[2] - b[2] * c[0])
               + a[2] * (b[0] * c[1] - b[1] * c[0]))
        s = [a[t] + b[t] + c[t] for t in range(3)]
        vol6 += det
        for t in range(3):
            m1[t] += det * s[t]
            for u in range(3):
                S[t][u] += det * (a[t] * a[u] + b[t] * b[u] + c[t] * c[u] + s[t] * s[u])
    vol = vol6 / 6
    m1 = [x / 24 for x in m1]
    S = [[x / 120 for x in row] for row in S]
    cen = [x / vol for x in m1]
    tr = S[0][0] + S[1][1] + S[2][2]
    I0 = [[(tr if t == u else 0) - S[t][u] for u in range(3)] for t in range(3)]
    return {"volume": vol, "centroid": cen, "S": S, "inertia": I0}


def face_area_centroid(pts):
    """Area and centroid of a planar convex/simple polygon in 3-D (fan from vertex 0)."""
    P = np.asarray(pts, dtype=LD)
    a = P[0]
    tot = LD(0)
    cen = np.zeros(3, dtype=LD)
    nref = None
    for i in range(1, len(P) - 1):
        cr = np.cross(P[i] - a, P[i + 1] - a)
        if nref is None:
            nref = np.asarray(newell_normal(np.asarray(P, dtype=float)), dtype=LD)
        ar = np.sign(np.dot(cr, nref)) * np.sqrt(np.dot(cr, cr)) / 2
        tot += ar
        cen += ar * (a + P[i] + P[i + 1]) / 3
    return float(abs(tot)), np.asarray(cen / tot, dtype=float)


# ---------------------------------------------------------------------- polygon moments
def polygon_moments(pts3, normal):
    """Exact integrals over a simple planar polygon embedded in 3-D.

    ``normal`` fixes the orientation: signed_area > 0 iff the cycle is counter-clockwise
    about it.  Returns dict(signed_area, area, perimeter, centroid (3,), Jc (polar moment
    about the centroidal normal axis), frame=(u,v,n), and planar second moments about the
    in-plane origin projection when needed).
    """
    P = np.asarray(pts3, dtype=LD)
    u, v, n = (np.asarray(t, dtype=LD) for t in plane_frame(normal))
    ref = P.mean(axis=0)
    x = (P - ref) @ u
    y = (P - ref) @ v
    xn, yn = np.roll(x, -1), np.roll(y, -1)
    cr = x * yn - xn * y
    A = cr.sum() / 2
    cx = ((x + xn) * cr).sum() / (6 * A)
    cy = ((y + yn) * cr).sum() / (6 * A)
    Ixx = (cr * (y * y + y * yn + yn * yn)).sum() / 12  # int y^2
    Iyy = (cr * (x * x + x * xn + xn * xn)).sum() / 12  # int x^2
    sgn = 1 if A > 0 else -1
    Jref = sgn * (Ixx + Iyy)
    Jc = Jref - abs(A) * (cx * cx + cy * cy)
    cen = ref + cx * u + cy * v
    per = np.sqrt(((np.roll(P, -1, axis=0) - P) ** 2).sum(axis=1)).sum()
    return {"signed_area": float(A), "area": float(abs(A)), "perimeter": float(per),
            "centroid": np.asarray(cen, dtype=float), "Jc": float(Jc), "normal": np.asarray(n, dtype=float)}


def polygon_xy_moments(xy):
    """(area_signed, cx, cy, Ix=int y^2, Iy=int x^2, Ixy=int xy) about the coordinate axes
    for a simple polygon in the xy-plane; orientation sign removed (true integrals)."""
    P = np.asarray(xy, dtype=LD)
    x, y = P[:, 0], P[:, 1]
    xn, yn = np.roll(x, -1), np.roll(y, -1)
    cr = x * yn - xn * y
    A = cr.sum() / 2
    s = 1 if A > 0 else -1
    cx = ((x + xn) * cr).sum() / (6 * A)
    cy = ((y + yn) * cr).sum() / (6 * A)
    Ix = s * (cr * (y * y + y * yn + yn * yn)).sum() / 12
    Iy = s * (cr * (x * x + x * xn + xn * xn)).sum() / 12
    Ixy = s * (cr * (x * yn + 2 * x * y + 2 * xn * yn + xn * y)).sum() / 24
    return tuple(float(t) for t in (A, cx, cy, Ix, Iy, Ixy))


def polygon_xy_moments_exact(xy):
    P = [(Fraction(a), Fraction(b)) for a, b in xy]
    n = len(P)
    A2 = Fraction(0)
    sx = sy = sxx = syy = sxy = Fraction(0)
    for i in range(n):
        x, y = P[i]
        xn, yn = P[(i + 1) % n]
        cr = x * yn - xn * y
        A2 += cr
        sx += (x + xn) * cr
        sy += (y + yn) * cr
        sxx += cr * (y * y + y * yn + yn * yn)
        syy += cr * (x * x + x * xn + xn * xn)
        sxy += cr * (x * yn + 2 * x * y + 2 * xn * yn + xn * y)
    A = A2 / 2
    s = 1 if A > 0 else -1
    return (A, sx / (6 * A), sy / (6 * A), s * sxx / 12, s * syy / 12, s * sxy / 24)


# --------------------------------------------------------------------------- membership
def winding_number(points, verts, faces):
    """Generalised winding number of a closed oriented mesh about each point
    (van Oosterom-Strackee solid angles over fan triangles). ~1 inside, ~0 outside."""
    P = np.atleast_2d(np.asarray(points, dtype=float))
    V = np.asarray(verts, dtype=float)
    tri = np.array(list(fan_triangles(faces)))
    A = V[tri[:, 0]][None] - P[:, None]
    B = V[tri[:, 1]][None] - P[:, None]
    C = V[tri[:, 2]][None] - P[:, None]
    la, lb, lc = (np.linalg.norm(t, axis=2) for t in (A, B, C))
    num = np.einsum("ptk,ptk->pt", A, np.cross(B, C))
    den = (la * lb * lc + np.einsum("ptk,ptk->pt", A, B) * lc + np.einsum("ptk,ptk->pt", B, C) * la
           + np.einsum("ptk,ptk->pt", C, A) * lb)
    omega = 2 * np.arctan2(num, den)
    return omega.sum(axis=1) / (4 * np.pi)


def _seg_dist(p, a, b):
    """p (N,1,3), a,b (1,M,3) -> (N,M) distance to segments."""
    ab = b - a
    den = np.einsum("nmk,nmk->nm", ab, ab)
    t = np.einsum("nmk,nmk->nm", p - a, np.broadcast_to(ab, (p.shape[0],) + ab.shape[1:]))
    with np.errstate(divide="ignore", invalid="ignore"):
        t = np.clip(np.where(den > 0, t / den, 0.0), 0, 1)
    q = a + t[..., None] * ab
    return np.linalg.norm(p - q, axis=2)


def point_triangle_distance(p, a, b, c):
    """Distances from points p (N,3) to triangles with corners a,b,c (M,3) -> (N,M):
    minimum of the three edge distances and, where the orthogonal projection falls
    inside the triangle, the distance to its plane."""
    p = np.atleast_2d(np.asarray(p, dtype=float))[:, None, :]
    a, b, c = a[None], b[None], c[None]
    d = np.minimum(np.minimum(_seg_dist(p, a, b), _seg_dist(p, b, c)), _seg_dist(p, c, a))
    n = np.cross(b - a, c - a)
    ln = np.linalg.norm(n, axis=2)
    with np.errstate(divide="ignore", invalid="ignore"):
        nu = n / ln[..., None]
    h = np.einsum("nmk,nmk->nm", p - a, np.broadcast_to(nu, (p.shape[0],) + nu.shape[1:]))
    q = p - h[..., None] * nu
    def side(u, v):
        return np.einsum("nmk,nmk->nm", np.cross(v - u, q - u), np.broadcast_to(nu, q.shape))
    inside = (side(a, b) >= 0) & (side(b, c) >= 0) & (side(c, a) >= 0) & (ln > 0)
    return np.where(inside, np.minimum(d, np.abs(h)), d)


def mesh_distance(points, verts, faces):
    """Unsigned distance from points to the surface of the mesh."""
    V = np.asarray(verts, dtype=float)
    tri = np.array(list(fan_triangles(faces)))
    d = point_triangle_distance(np.asarray(points, dtype=float), V[tri[:, 0]], V[tri[:, 1]], V[tri[:, 2]])
    return d.min(axis=1)


def segment_distance_2d(p, a, b):
    """Distance from points p (N,2) to segments a->b (M,2) -> (N,M)."""
    p = np.atleast_2d(p)[:, None, :]
    ab = (b - a)[None]
    t = np.einsum("nmk,nmk->nm", p - a[None], np.broadcast_to(ab, (p.shape[0],) + ab.shape[1:]))
    den = np.einsum("mk,mk->m", b - a, b - a)[None]
    t = np.clip(t / den, 0, 1)
    q = a[None] + t[..., None] * ab
    return np.linalg.norm(p - q, axis=2)


def crossing_number_inside(pts, poly):
    """Even-odd rule for points (N,2) in a simple polygon (M,2); robust float version
    (callers keep a margin from the boundary)."""
    pts = np.atleast_2d(pts)
    x, y = pts[:, 0][:, None], pts[:, 1][:, None]
    x0, y0 = poly[:, 0][None], poly[:, 1][None]
    x1, y1 = np.roll(poly[:, 0], -1)[None], np.roll(poly[:, 1], -1)[None]
    cond = (y0 > y) != (y1 > y)
    with np.errstate(divide="ignore", invalid="ignore"):
        xi = x0 + (y - y0) * (x1 - x0) / (y1 - y0)
    return (np.sum(cond & (x < xi), axis=1) % 2) == 1


def is_simple_polygon_2d(poly, exact=False):
    """True iff no two non-adjacent edges touch and adjacent ones only share endpoints."""
    n = len(poly)
    P = [tuple(p) for p in poly]

    def orient(a, b, c):
        return (b[0] - a[0]) * (c[1] - a[1]) - (b[1] - a[1]) * (c[0] - a[0])

    def on_seg(a, b, c):
        return min(a[0], b[0]) <= c[0] <= max(a[0], b[0]) and min(a[1], b[1]) <= c[1] <= max(a[1], b[1])

    for i in range(n):
        a, b = P[i], P[(i + 1) % n]
        for j in range(i + 1, n):
            c, d = P[j], P[(j + 1) % n]
            adjacent = (j == i + 1) or (i == 0 and j == n - 1)
            o1, o2, o3, o4 = orient(a, b, c), orient(a, b, d), orient(c, d, a), orient(c, d, b)
            if adjacent:
                # adjacent edges share one endpoint; they overlap iff collinear and folding back
                if j == i + 1:
                    if o2 == 0 and ((d[0] - b[0]) * (a[0] - b[0]) + (d[1] - b[1]) * (a[1] - b[1])) > 0:
                        return False
                else:
                    if o3 == 0 and o1 == 0 and ((c[0] - a[0]) * (b[0] - a[0]) + (c[1] - a[1]) * (b[1] - a[1])) > 0:
                        return False
                continue
            if ((o1 > 0) != (o2 > 0) and o1 != 0 and o2 != 0) and ((o3 > 0) != (o4 > 0) and o3 != 0 and o4 != 0):
                return False
            if o1 == 0 and on_seg(a, b, c):
                return False
            if o2 == 0 and on_seg(a, b, d):
                return False
            if o3 == 0 and on_seg(c, d, a):
                return False
            if o4 == 0 and on_seg(c, d, b):
                return False
    return True


def rotation_from_quaternion(q):
    w, x, y, z = q / np.linalg.norm(q)
    return np.array([
        [1 - 2 * (y * y + z * z), 2 * (x * y - z * w), 2 * (x * z + y * w)],
        [2 * (x * y + z * w), 1 - 2 * (x * x + z * z), 2 * (y * z - x * w)],
        [2 * (x * z - y * w), 2 * (y * z + x * w), 1 - 2 * (x * x + y * y)],
    ])


def mesh_is_closed_oriented(faces):
    """Every directed edge appears once and its reverse once."""
    seen = set()
    for f in faces:
        for i in range(len(f)):
            e = (int(f[i]), int(f[(i + 1) % len(f)]))
            if e in seen:
                return False
            seen.add(e)
    return all((b, a) in seen for a, b in seen)


def self_test():
    cube = np.array([[x, y, z] for x in (0, 1) for y in (0, 1) for z in (0, 1)], dtype=float) * [1, 2, 3] + [5, -3, 2]
    f, nrm, d, isv = convex_facets(cube)
    assert len(f) == 6 and all(len(t) == 4 for t in f) and isv.all()
    m = mesh_moments(cube, f)
    assert abs(m["volume"] - 6) < 1e-12
    assert np.allclose(m["centroid"], [5.5, -2, 3.5], atol=1e-12)
    # box inertia about centroid: V/12 (b^2+c^2) ...
    Ic = m["inertia_centroidal"]
    assert np.allclose(np.diag(Ic), [6 / 12 * (4 + 9), 6 / 12 * (1 + 9), 6 / 12 * (1 + 4)], atol=1e-10)
    me = mesh_moments_exact([[int(x) for x in v] for v in cube], f)
    assert me["volume"] == 6 and me["centroid"] == [Fraction(11, 2), -2, Fraction(7, 2)]
    assert np.allclose(np.array(me["inertia"], dtype=float), m["inertia"], rtol=1e-13)
    w = winding_number([[5.5, -2, 3.5], [0, 0, 0], [5.01, -2.99, 2.01]], cube, f)
    assert np.allclose(w, [1, 0, 1], atol=1e-9)
    dist = mesh_distance([[5.5, -2, 3.5], [7, -2, 3.5], [7, 0, 6]], cube, f)
    assert np.allclose(dist, [0.5, 1, math.sqrt(3)], atol=1e-12), dist
    sq = np.array([[0, 0], [2, 0], [2, 1], [0, 1.0]])
    A, cx, cy, Ix, Iy, Ixy = polygon_xy_moments(sq)
    assert np.allclose([A, cx, cy, Ix, Iy, Ixy], [2, 1, .5, 2 / 3, 8 / 3, 1.0])
    A, cx, cy, Ix, Iy, Ixy = polygon_xy_moments(sq[::-1] * [-1, 1])
    assert np.allclose([A, cx, cy, Ix, Iy, Ixy], [2, -1, .5, 2 / 3, 8 / 3, -1.0])
    pm = polygon_moments(np.c_[sq, np.zeros(4)], [0, 0, 1])
    assert abs(pm["Jc"] - (2 / 12 * (4 + 1))) < 1e-12 and pm["signed_area"] > 0
    assert is_simple_polygon_2d([(0, 0), (2, 0), (2, 1), (0, 1)])
    assert not is_simple_polygon_2d([(0, 0), (2, 1), (2, 0), (0, 1)])
    _f, _n, _isv = convex_facets_int([(-1, -1, 1), (0, -1, -1), (0, 0, 0), (0, 0, 1), (1, 0, -1), (1, 1, 1)])
    assert _isv == [True, True, True, False, True, True], _isv
    _f, _n, _isv = convex_facets_int([(-1, 1, 0), (0, 0, 0), (0, 0, 1), (0, 1, 0), (1, -1, 0), (1, 0, 0)])
    assert _isv == [True, False, True, True, True, True], _isv
    fi, ni, vi = convex_facets_int([[int(x) for x in v] for v in cube])
    assert sorted(map(sorted, fi)) == sorted(map(sorted, f))


if __name__ == "__main__":
    self_test()
    print("oracle.geom self-test ok")
