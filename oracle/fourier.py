"""Exact Fourier transforms of simplices via divided differences of exp (Opitz formula).

int_simplex exp(-i q.r) dr = d! * vol * exp[z_0, ..., z_d],  z_k = -i q.v_k, and the divided
difference exp[z_0..z_d] is the (0, d) entry of expm(Z) with Z upper bidiagonal (z_k on the
diagonal, ones above).  scipy.linalg.expm evaluates this stably for coincident and
nearly coincident nodes, so there is no small-q or special-direction cancellation.
"""
import numpy as np
from scipy.linalg import expm


_U = {}


def _unitary(k):
    if k not in _U:
        j = np.arange(k)
        _U[k] = np.exp(2j * np.pi * np.outer(j, j) / k) / np.sqrt(k)  # DFT matrix
    return _U[k]


def _divdiff_exp(Z):
    """Z: (..., k) complex nodes -> exp[z_0..z_{k-1}] for each row.

    scipy's expm treats *triangular* input specially and loses up to half the digits when two large
    eigenvalues are nearly (not exactly) confluent - exactly what happens for q perpendicular to an
    edge.  A fixed unitary similarity makes the matrix dense, which avoids that code path; the result
    is accurate to ~1e-15 for all node configurations (see self_test)."""
    k = Z.shape[-1]
    M = np.zeros(Z.shape[:-1] + (k, k), dtype=complex)
    idx = np.arange(k)
    M[..., idx, idx] = Z
    M[..., idx[:-1], idx[1:]] = 1.0
    U = _unitary(k)
    E = U.conj().T @ expm(U @ M @ U.conj().T) @ U
    return E[..., 0, k - 1]


def ft_mesh(verts, faces, Q):
    """F(q) = int_solid exp(-i q.r) dV for a closed mesh with outward convex faces. Q: (m,3) -> (m,) complex."""
    V = np.asarray(verts, dtype=float)
    Q = np.atleast_2d(np.asarray(Q, dtype=float))
    ref = V.mean(axis=0)
    tri = np.array([(f[0], f[i], f[i + 1]) for f in faces for i in range(1, len(f) - 1)])
    a, b, c = V[tri[:, 0]] - ref, V[tri[:, 1]] - ref, V[tri[:, 2]] - ref
    det = np.einsum("ij,ij->i", a, np.cross(b, c))  # 6 * signed volume of (ref, a, b, c)
    # nodes relative to ref, phase of ref factored out
    za = -1j * (Q @ a.T)
    zb = -1j * (Q @ b.T)
    zc = -1j * (Q @ c.T)
    Z = np.stack([np.zeros_like(za), za, zb, zc], axis=-1)  # (m, T, 4)
    D = _divdiff_exp(Z)
    F = (D * det[None, :]).sum(axis=1)
    return F * np.exp(-1j * (Q @ ref))


def ft_polygon(verts3, normal, Q):
    """F(q) = int_polygon exp(-i q_par.r) dA with q_par the projection of q into the polygon's plane;
    always +area at q=0 whatever the orientation of the vertex cycle."""
    P = np.asarray(verts3, dtype=float)
    n = np.asarray(normal, dtype=float)
    n = n / np.linalg.norm(n)
    Q = np.atleast_2d(np.asarray(Q, dtype=float))
    Qp = Q - (Q @ n)[:, None] * n[None, :]
    ref = P.mean(axis=0)
    a = P - ref
    b = np.roll(P, -1, axis=0) - ref
    two_area = np.cross(a, b) @ n  # signed doubled areas of the triangles (ref, a, b)
    za = -1j * (Qp @ a.T)
    zb = -1j * (Qp @ b.T)
    Z = np.stack([np.zeros_like(za), za, zb], axis=-1)
    D = _divdiff_exp(Z)
    F = (D * two_area[None, :]).sum(axis=1)
    sgn = 1.0 if two_area.sum() > 0 else -1.0
    return sgn * F * np.exp(-1j * (Qp @ ref))


def ft_sphere(R, centre, Q):
    Q = np.atleast_2d(np.asarray(Q, dtype=float))
    q = np.linalg.norm(Q, axis=1)
    x = q * R
    V = 4 / 3 * np.pi * R**3
    with np.errstate(divide="ignore", invalid="ignore"):
        big = 3 * (np.sin(x) - x * np.cos(x)) / x**3
    small = 1 - x**2 / 10 + x**4 / 280 - x**6 / 15120 + x**8 / 1330560
    g = np.where(x < 0.3, small, big)
    return V * g * np.exp(-1j * (Q @ np.asarray(centre, dtype=float)))


def self_test():
    # box [0,a]x[0,b]x[0,c] shifted: closed form product of 1-D transforms
    a, b, c = 1.3, 0.7, 2.1
    t = np.array([0.4, -1.2, 0.3])
    V = np.array([[x, y, z] for x in (0, a) for y in (0, b) for z in (0, c)], dtype=float) + t
    F = [[0, 2, 6, 4], [0, 4, 5, 1], [4, 6, 7, 5], [0, 1, 3, 2], [2, 3, 7, 6], [1, 5, 7, 3]]
    rng = np.random.RandomState(0)
    Q = np.vstack([rng.randn(20, 3) * s for s in (1e-4, 1e-2, 1, 10)] + [[0, 0, 0], [0, 0, 2.0], [1e-3, 0, 0], [0, 3.0, 1e-9]])

    def one(L, k):
        k = np.asarray(k, dtype=float)
        with np.errstate(divide="ignore", invalid="ignore"):
            r = np.where(k != 0, -np.expm1(-1j * k * L) / (1j * np.where(k == 0, 1, k)), L)
        return r

    exact = one(a, Q[:, 0]) * one(b, Q[:, 1]) * one(c, Q[:, 2]) * np.exp(-1j * (Q @ t))
    got = ft_mesh(V, F, Q)
    assert np.max(np.abs(got - exact)) < 1e-12 * a * b * c, np.max(np.abs(got - exact))
    # rectangle in a tilted plane: F(0) = area, orientation independence
    P = np.array([[0, 0, 0], [2, 0, 0], [2, 1, 0], [0, 1, 0]], dtype=float)
    f0 = ft_polygon(P, [0, 0, 1], [[0, 0, 0], [0.3, 0.2, 5.0]])
    f1 = ft_polygon(P[::-1], [0, 0, 1], [[0, 0, 0], [0.3, 0.2, 5.0]])
    assert abs(f0[0] - 2) < 1e-14 and np.allclose(f0, f1)
    ex = one(2.0, np.array([0.3])) * one(1.0, np.array([0.2]))
    assert abs(f0[1] - ex[0]) < 1e-13
    # nearly confluent large nodes against a 50-digit reference
    import mpmath

    mpmath.mp.dps = 50
    for z1 in (1.0, 12.3, 25.0):
        for gap in (0.0, 1e-15, 1e-12, 1e-9, 1e-6, 1e-3):
            z = np.array([0, -1j * z1, -1j * z1 * (1 + gap)])
            Mm = mpmath.zeros(3)
            for i in range(3):
                Mm[i, i] = mpmath.mpc(z[i])
            Mm[0, 1] = Mm[1, 2] = 1
            ref = complex(mpmath.expm(Mm)[0, 2])
            assert abs(_divdiff_exp(z[None, :])[0] - ref) < 5e-15, (z1, gap)
    s = ft_sphere(1.5, [0.2, 0, 0], [[0, 0, 0], [1e-3, 0, 0], [0.1, 0.2, 0.0], [2.0, 1.0, 0.5]])
    assert abs(s[0] - 4 / 3 * np.pi * 1.5**3) < 1e-12


if __name__ == "__main__":
    self_test()
    print("ok")
