"""Exact smallest enclosing ball by brute force over support sets (no miniball)."""
import itertools

import numpy as np


def _circum(points):
    """Centre and radius of the smallest sphere through 2..4 affinely independent points
    (centre in their affine hull). Returns None if degenerate."""
    p0 = points[0]
    U = points[1:] - p0
    G = U @ U.T
    b = 0.5 * np.einsum("ij,ij->i", U, U)
    try:
        lam = np.linalg.solve(G, b)
    except np.linalg.LinAlgError:
        return None
    if not np.all(np.isfinite(lam)):
        return None
    c = p0 + lam @ U
    return c, float(np.linalg.norm(c - p0))


def min_enclosing_ball(P, rel=1e-9):
    """Smallest ball containing all points of P ((n,d), d=2 or 3; n up to ~60)."""
    P = np.asarray(P, dtype=float)
    n, d = P.shape
    cen = P.mean(axis=0)
    scale = float(np.max(np.linalg.norm(P - cen, axis=1))) or 1.0
    best = None
    # restrict candidates to hull-ish points: those beyond 50% of the max distance from the mean
    for k in range(2, d + 2):
        if n < k:
            break
        idx = np.array(list(itertools.combinations(range(n), k)))
        # vectorised circumcentres
        p0 = P[idx[:, 0]]
        U = P[idx[:, 1:]] - p0[:, None, :]
        G = np.einsum("mik,mjk->mij", U, U)
        b = 0.5 * np.einsum("mik,mik->mi", U, U)
        det = np.linalg.det(G)
        ok = np.abs(det) > (1e-12 * scale ** 2) ** (k - 1)
        if not ok.any():
            continue
        lam = np.linalg.solve(G[ok], b[ok][..., None])[..., 0]
        C = p0[ok] + np.einsum("mi,mik->mk", lam, U[ok])
        R = np.linalg.norm(C - p0[ok], axis=1)
        md = np.empty(len(C))
        for lo in range(0, len(C), 20000):
            md[lo:lo + 20000] = np.linalg.norm(P[None, :, :] - C[lo:lo + 20000, None, :], axis=2).max(axis=1)
        valid = md <= R * (1 + rel) + rel * scale
        if valid.any():
            t = int(np.argmin(np.where(valid, R, np.inf)))
            if best is None or R[t] < best[1]:
                best = (C[t], float(R[t]))
    return best


def self_test():
    sq = np.array([[0, 0, 0], [2, 0, 0], [2, 2, 0], [0, 2, 0], [1, 1, 0.5]], dtype=float)
    c, r = min_enclosing_ball(sq)
    assert np.allclose(c, [1, 1, 0]) and abs(r - np.sqrt(2)) < 1e-12
    tri = np.array([[0, 0], [4, 0], [1, 0.3]], dtype=float)  # obtuse: ball on the long edge
    c, r = min_enclosing_ball(tri)
    assert np.allclose(c, [2, 0]) and abs(r - 2) < 1e-12
    rng = np.random.RandomState(5)
    X = rng.randn(25, 3)
    c, r = min_enclosing_ball(X)
    assert np.all(np.linalg.norm(X - c, axis=1) <= r * (1 + 1e-9))
    on = np.sum(np.abs(np.linalg.norm(X - c, axis=1) - r) < 1e-9 * r)
    assert on >= 2


if __name__ == "__main__":
    self_test()
    print("ok")
